package main

import (
	"context"
	"fmt"
	"strconv"
	"strings"

	"ariga.io/atlas/sql/migrate"
	"ariga.io/atlas/sql/mysql"
	"ariga.io/atlas/sql/postgres"
	"ariga.io/atlas/sql/schema"

	"verifharness/internal/out"
	"verifharness/internal/rng"
)

// ---- descriptors (serialisable; the real schema.* values are built from them)

type dcol struct {
	name    string
	typ     string // int | text | bool | serial | enum
	enum    string // enum type name (typ == enum)
	eschema *string
	null    bool
	def     string // literal default ("" = none)
	comment string
	vals    []string // replay stage: the enum's values (nil = a, b)
}

type didx struct {
	name    string
	cols    []string
	unique  bool
	uconst  bool // PG: UNIQUE constraint (postgres.Constraint{T:"u"})
	comment string
}

type dfk struct {
	sym     string
	cols    []string
	ref     string // referenced table name
	rschema *string
	rcols   []string
	ondel   string // replay stage: "" = CASCADE, setnull, noaction
}

type dchk struct{ name, expr string }

type dtab struct {
	schema  *string
	name    string
	cols    []dcol
	pk      []string
	idx     []didx
	fks     []dfk
	chks    []dchk
	comment string
}

type dsub struct {
	k      string // AC DC MC RC AI DI MI RI AF DF MF AK DK MK APK DPK MPK ATC MTC
	col    dcol
	col2   dcol // MC/RC: to
	chg    string
	idx    didx
	idx2   didx
	fk     dfk
	fk2    dfk
	chk    dchk
	chk2   dchk
	pk     []string
	pk2    []string
	cm, c2 string
}

type dchange struct {
	k       string // AT DT RT MT AO DO MO RO AS DS MS
	t       dtab
	t2      dtab
	subs    []dsub
	ename   string
	ename2  string
	eschema *string
	vals    []string
	vals2   []string
	sname   string
	flag    bool // IfExists / IfNotExists
}

// ---- building the real values

type world struct {
	pg     bool
	tables map[string]*schema.Table
	full   map[string]bool // built from its own descriptor (not a stub made for a reference)
}

func (w *world) colType(c dcol) *schema.ColumnType {
	ct := &schema.ColumnType{Null: c.null}
	switch c.typ {
	case "int":
		if w.pg {
			ct.Type = &schema.IntegerType{T: "integer"}
		} else {
			ct.Type = &schema.IntegerType{T: "int"}
		}
	case "text":
		if w.pg {
			ct.Type = &schema.StringType{T: "text"}
		} else {
			ct.Type = &schema.StringType{T: "varchar", Size: 64}
		}
	case "bool":
		if w.pg {
			ct.Type = &schema.BoolType{T: "boolean"}
		} else {
			ct.Type = &schema.BoolType{T: "bool"}
		}
	case "serial":
		ct.Type = &postgres.SerialType{T: "serial"}
	case "enum":
		ct.Type = &schema.EnumType{T: c.enum, Values: []string{"a", "b"}, Schema: mkSchema(c.eschema)}
	}
	return ct
}

func (w *world) column(c dcol) *schema.Column {
	col := &schema.Column{Name: c.name, Type: w.colType(c)}
	if c.def != "" {
		col.Default = &schema.Literal{V: c.def}
	}
	if c.comment != "" {
		col.Attrs = append(col.Attrs, &schema.Comment{Text: c.comment})
	}
	return col
}

func (w *world) index(t *schema.Table, i didx) *schema.Index {
	idx := &schema.Index{Name: i.name, Unique: i.unique || i.uconst, Table: t}
	for n, c := range i.cols {
		col, ok := t.Column(c)
		if !ok {
			col = &schema.Column{Name: c, Type: &schema.ColumnType{Type: &schema.IntegerType{T: "int"}}}
		}
		idx.Parts = append(idx.Parts, &schema.IndexPart{SeqNo: n, C: col})
	}
	if i.uconst && w.pg {
		idx.Attrs = append(idx.Attrs, postgres.UniqueConstraint(i.name))
	}
	if i.comment != "" {
		idx.Attrs = append(idx.Attrs, &schema.Comment{Text: i.comment})
	}
	return idx
}

func (w *world) fk(t *schema.Table, f dfk) *schema.ForeignKey {
	fk := &schema.ForeignKey{Symbol: f.sym, Table: t, OnDelete: schema.Cascade}
	for _, c := range f.cols {
		col, ok := t.Column(c)
		if !ok {
			col = &schema.Column{Name: c, Type: &schema.ColumnType{Type: &schema.IntegerType{T: "int"}, Null: true}}
		}
		fk.Columns = append(fk.Columns, col)
	}
	ref, ok := w.tables[f.ref]
	if !ok {
		ref = &schema.Table{Name: f.ref, Schema: mkSchema(f.rschema)}
		for _, c := range f.rcols {
			ref.Columns = append(ref.Columns, &schema.Column{Name: c, Type: &schema.ColumnType{Type: &schema.IntegerType{T: "int"}}})
		}
		w.tables[f.ref] = ref
	}
	fk.RefTable = ref
	for _, c := range f.rcols {
		col, ok := ref.Column(c)
		if !ok {
			col = &schema.Column{Name: c, Type: &schema.ColumnType{Type: &schema.IntegerType{T: "int"}}}
		}
		fk.RefColumns = append(fk.RefColumns, col)
	}
	return fk
}

func (w *world) check(c dchk) *schema.Check { return &schema.Check{Name: c.name, Expr: c.expr} }

func (w *world) pkey(t *schema.Table, cols []string) *schema.Index {
	return w.index(t, didx{name: "", cols: cols})
}

// table builds (once per name) the real table of a descriptor.
func (w *world) table(d dtab) *schema.Table {
	if t, ok := w.tables[d.name]; ok && (w.full[d.name] || len(d.cols) == 0) {
		return t
	}
	t := &schema.Table{Name: d.name, Schema: mkSchema(d.schema)}
	w.tables[d.name] = t
	w.full[d.name] = len(d.cols) > 0
	for _, c := range d.cols {
		t.Columns = append(t.Columns, w.column(c))
	}
	if len(d.pk) > 0 {
		t.PrimaryKey = w.pkey(t, d.pk)
	}
	for _, i := range d.idx {
		t.Indexes = append(t.Indexes, w.index(t, i))
	}
	for _, c := range d.chks {
		t.Attrs = append(t.Attrs, w.check(c))
	}
	if d.comment != "" {
		t.Attrs = append(t.Attrs, &schema.Comment{Text: d.comment})
	}
	return t
}

func (w *world) linkFKs(d dtab) {
	t := w.tables[d.name]
	if len(t.ForeignKeys) > 0 {
		return
	}
	for _, f := range d.fks {
		t.ForeignKeys = append(t.ForeignKeys, w.fk(t, f))
	}
}

func kindOf(s string) schema.ChangeKind {
	switch s {
	case "type":
		return schema.ChangeType
	case "null":
		return schema.ChangeNull
	case "default":
		return schema.ChangeDefault
	case "comment":
		return schema.ChangeComment
	case "type+null":
		return schema.ChangeType | schema.ChangeNull
	case "null+comment":
		return schema.ChangeNull | schema.ChangeComment
	}
	return schema.NoChange
}

func (w *world) sub(t *schema.Table, s dsub) schema.Change {
	switch s.k {
	case "AC":
		return &schema.AddColumn{C: w.column(s.col)}
	case "DC":
		return &schema.DropColumn{C: w.column(s.col)}
	case "MC":
		return &schema.ModifyColumn{From: w.column(s.col), To: w.column(s.col2), Change: kindOf(s.chg)}
	case "RC":
		return &schema.RenameColumn{From: w.column(s.col), To: w.column(s.col2)}
	case "AI":
		return &schema.AddIndex{I: w.index(t, s.idx)}
	case "DI":
		return &schema.DropIndex{I: w.index(t, s.idx)}
	case "MI":
		k := schema.ChangeParts
		if s.chg == "comment" {
			k = schema.ChangeComment
		} else if s.chg == "parts+comment" {
			k |= schema.ChangeComment
		}
		return &schema.ModifyIndex{From: w.index(t, s.idx), To: w.index(t, s.idx2), Change: k}
	case "RI":
		return &schema.RenameIndex{From: w.index(t, s.idx), To: w.index(t, s.idx2)}
	case "AF":
		return &schema.AddForeignKey{F: w.fk(t, s.fk)}
	case "DF":
		return &schema.DropForeignKey{F: w.fk(t, s.fk)}
	case "MF":
		return &schema.ModifyForeignKey{From: w.fk(t, s.fk), To: w.fk(t, s.fk2), Change: schema.ChangeRefTable}
	case "AK":
		return &schema.AddCheck{C: w.check(s.chk)}
	case "DK":
		return &schema.DropCheck{C: w.check(s.chk)}
	case "MK":
		return &schema.ModifyCheck{From: w.check(s.chk), To: w.check(s.chk2)}
	case "APK":
		return &schema.AddPrimaryKey{P: w.pkey(t, s.pk)}
	case "DPK":
		return &schema.DropPrimaryKey{P: w.pkey(t, s.pk)}
	case "MPK":
		return &schema.ModifyPrimaryKey{From: w.pkey(t, s.pk), To: w.pkey(t, s.pk2), Change: schema.ChangeParts}
	case "ATC":
		return &schema.AddAttr{A: &schema.Comment{Text: s.cm}}
	case "MTC":
		return &schema.ModifyAttr{From: &schema.Comment{Text: s.cm}, To: &schema.Comment{Text: s.c2}}
	}
	panic("sub " + s.k)
}

func (w *world) change(c dchange) schema.Change {
	switch c.k {
	case "AT":
		t := w.table(c.t)
		w.linkFKs(c.t)
		ch := &schema.AddTable{T: t}
		if c.flag {
			ch.Extra = append(ch.Extra, &schema.IfNotExists{})
		}
		return ch
	case "DT":
		t := w.table(c.t)
		w.linkFKs(c.t)
		ch := &schema.DropTable{T: t}
		if c.flag {
			ch.Extra = append(ch.Extra, &schema.IfExists{})
		}
		return ch
	case "RT":
		return &schema.RenameTable{From: w.table(c.t), To: w.table(c.t2)}
	case "MT":
		t := w.table(c.t)
		w.linkFKs(c.t)
		ch := &schema.ModifyTable{T: t}
		for _, s := range c.subs {
			ch.Changes = append(ch.Changes, w.sub(t, s))
		}
		return ch
	case "AO":
		return &schema.AddObject{O: &schema.EnumType{T: c.ename, Values: c.vals, Schema: mkSchema(c.eschema)}}
	case "DO":
		return &schema.DropObject{O: &schema.EnumType{T: c.ename, Values: c.vals, Schema: mkSchema(c.eschema)}}
	case "MO":
		return &schema.ModifyObject{
			From: &schema.EnumType{T: c.ename, Values: c.vals, Schema: mkSchema(c.eschema)},
			To:   &schema.EnumType{T: c.ename, Values: c.vals2, Schema: mkSchema(c.eschema)},
		}
	case "RO":
		return &schema.RenameObject{
			From: &schema.EnumType{T: c.ename, Values: c.vals, Schema: mkSchema(c.eschema)},
			To:   &schema.EnumType{T: c.ename2, Values: c.vals, Schema: mkSchema(c.eschema)},
		}
	case "AS":
		return &schema.AddSchema{S: schema.New(c.sname)}
	case "DS":
		return &schema.DropSchema{S: schema.New(c.sname)}
	case "MS":
		s := schema.New(c.sname)
		return &schema.ModifySchema{S: s, Changes: []schema.Change{&schema.AddAttr{A: &schema.Comment{Text: "note"}}}}
	}
	panic("change " + c.k)
}

// ---- quote-aware tokenizer: identifier chains of one statement

type chain struct {
	parts  []string
	prev   [3]string // the three words before the chain (upper-cased), nearest last
	end    int       // lexChains: byte offset after the chain
	unterm bool      // lexChains: the last identifier of the chain has no closing quote
}

// chains extracts every quoted identifier chain (a.b.c) outside string literals, and
// returns the literals too.  qo/qc quote identifiers; strq are the string quote bytes.
func chainsOf(stmt string, qo, qc byte, strq string) (cs []chain, lits []string) {
	var words [3]string
	push := func(w string) { words[0], words[1], words[2] = words[1], words[2], strings.ToUpper(w) }
	i := 0
	for i < len(stmt) {
		c := stmt[i]
		switch {
		case c == qo:
			var parts []string
			for {
				j := i + 1
				var sb strings.Builder
				for j < len(stmt) {
					if stmt[j] == '\\' && qc == '"' && j+1 < len(stmt) { // %q escapes of typeIdent
						sb.WriteByte(stmt[j+1])
						j += 2
						continue
					}
					if stmt[j] == qc {
						break
					}
					sb.WriteByte(stmt[j])
					j++
				}
				parts = append(parts, sb.String())
				i = j + 1
				if i+1 < len(stmt) && stmt[i] == '.' && stmt[i+1] == qo {
					i++
					continue
				}
				break
			}
			cs = append(cs, chain{parts: parts, prev: words})
			push("<id>")
		case strings.IndexByte(strq, c) >= 0:
			j := i + 1
			var sb strings.Builder
			for j < len(stmt) {
				if stmt[j] == '\\' && c == '"' && j+1 < len(stmt) {
					sb.WriteByte(stmt[j+1])
					j += 2
					continue
				}
				if stmt[j] == c {
					if j+1 < len(stmt) && stmt[j+1] == c && c == '\'' {
						sb.WriteByte(c)
						j += 2
						continue
					}
					break
				}
				sb.WriteByte(stmt[j])
				j++
			}
			lits = append(lits, sb.String())
			i = j + 1
			push("<lit>")
		case c >= 'A' && c <= 'Z' || c >= 'a' && c <= 'z' || c == '_':
			j := i
			for j < len(stmt) && (stmt[j] >= 'A' && stmt[j] <= 'Z' || stmt[j] >= 'a' && stmt[j] <= 'z' || stmt[j] == '_' || stmt[j] >= '0' && stmt[j] <= '9') {
				j++
			}
			push(stmt[i:j])
			i = j
		default:
			i++
		}
	}
	return
}

// ---- one planner run + oracle

type planCfg struct {
	pg     bool
	q      *string
	mode   migrate.PlanMode
	indent string
	marker string             // the connected schema's (unique) name
	other  string             // a second schema
	dev    string             // replay stage: the schema name of the dev database
	ownOf  map[string]*string // table / enum / index / sequence name -> the schema it lives in
}

func reverseStmts(c *migrate.Change) []string {
	switch r := c.Reverse.(type) {
	case string:
		if r == "" {
			return nil
		}
		return []string{r}
	case []string:
		return r
	}
	return nil
}

// caseNames: the names the generator handed out for the current case and their class
// (names with special characters no longer carry a recognisable prefix).
var caseNames map[string]string

func classOfName(n string) string {
	if cl, ok := caseNames[n]; ok {
		return cl
	}
	switch {
	case strings.HasSuffix(n, "_seq"):
		return "seq"
	case strings.HasSuffix(n, "_pkey"):
		return "" // default primary-key constraint name
	case strings.HasPrefix(n, "t_"):
		return "table"
	case strings.HasPrefix(n, "e_"):
		return "type"
	case strings.HasPrefix(n, "i_"):
		return "index"
	}
	return ""
}

// indexRefPos: the chain is an index *reference* (PG): DROP INDEX [CONCURRENTLY] x,
// ALTER INDEX x, COMMENT ON INDEX x.
func indexRefPos(c chain) bool {
	p := c.prev
	if p[2] == "INDEX" && (p[1] == "DROP" || p[1] == "ALTER" || p[1] == "ON") {
		return true
	}
	return p[2] == "CONCURRENTLY" && p[1] == "INDEX" && p[0] == "DROP"
}

var schemaStmt = []string{"CREATE SCHEMA", "DROP SCHEMA", "ALTER SCHEMA", "CREATE DATABASE", "DROP DATABASE", "ALTER DATABASE", "COMMENT ON SCHEMA"}

type stmtObs struct {
	text   string
	chains []chain
}

func runPlanCase(w *out.W, id string, cfg planCfg, cs []dchange, expectReject bool, desc string, skel bool) {
	wd := &world{pg: cfg.pg, tables: map[string]*schema.Table{}, full: map[string]bool{}}
	var real []schema.Change
	cfg.ownOf = map[string]*string{}
	noteTab := func(t dtab) {
		if t.name == "" {
			return
		}
		cfg.ownOf[t.name] = t.schema
		for _, c := range t.cols {
			if c.typ == "enum" {
				cfg.ownOf[c.enum] = c.eschema
			}
		}
		for _, i := range t.idx {
			cfg.ownOf[i.name] = t.schema
		}
		for _, f := range t.fks {
			if _, ok := cfg.ownOf[f.ref]; !ok {
				cfg.ownOf[f.ref] = f.rschema
			}
		}
	}
	baseSchemas := map[string]bool{}
	for _, c := range cs {
		noteTab(c.t)
		noteTab(c.t2)
		if c.ename != "" {
			cfg.ownOf[c.ename], cfg.ownOf[c.ename2] = c.eschema, c.eschema
		}
		if (c.k == "AT" || c.k == "DT" || c.k == "MT" || c.k == "RT") && c.t.schema != nil && *c.t.schema != "" {
			baseSchemas[*c.t.schema] = true
		}
		if c.k == "RT" && c.t2.schema != nil && *c.t2.schema != "" {
			baseSchemas[*c.t2.schema] = true
		}
		for _, s := range c.subs {
			for _, col := range []dcol{s.col, s.col2} {
				if col.typ == "enum" {
					cfg.ownOf[col.enum] = col.eschema
				}
			}
			for _, i := range []didx{s.idx, s.idx2} {
				if i.name != "" {
					cfg.ownOf[i.name] = c.t.schema
				}
			}
			for _, f := range []dfk{s.fk, s.fk2} {
				if _, ok := cfg.ownOf[f.ref]; !ok && f.ref != "" {
					cfg.ownOf[f.ref] = f.rschema
				}
			}
		}
	}
	for _, c := range cs { // every described table first, so that references find the real one
		switch c.k {
		case "AT", "DT", "MT", "RT":
			wd.table(c.t)
		}
	}
	for _, c := range cs {
		real = append(real, wd.change(c))
	}
	var opts []migrate.PlanOption
	if cfg.q != nil {
		opts = append(opts, func(o *migrate.PlanOptions) { o.SchemaQualifier = cfg.q })
	}
	opts = append(opts, func(o *migrate.PlanOptions) { o.Mode = cfg.mode; o.Indent = cfg.indent })
	var (
		plan *migrate.Plan
		err  error
		pnc  any
	)
	func() {
		defer func() { pnc = recover() }()
		if cfg.pg {
			plan, err = postgres.DefaultPlan.PlanChanges(context.Background(), "p", real, opts...)
		} else {
			plan, err = mysql.DefaultPlan.PlanChanges(context.Background(), "p", real, opts...)
		}
	}()
	dial := "mysql"
	if cfg.pg {
		dial = "pg"
	}
	w.Count("dialect:" + dial)
	w.Count("qualifier:" + map[bool]string{true: "unset", false: map[bool]string{true: "empty", false: "custom"}[cfg.q != nil && *cfg.q == ""]}[cfg.q == nil])
	w.Count("mode:" + strconv.Itoa(int(cfg.mode)))
	for _, c := range cs {
		w.Count("change:" + c.k)
		for _, s := range c.subs {
			w.Count("sub:" + s.k)
		}
	}
	head := fmt.Sprintf("%s q=%s mode=%d %s", dial, opt(cfg.q), cfg.mode, desc)
	caseLine := ""
	if skel {
		ts := []string{b01(cfg.pg), opt(cfg.q), strconv.Itoa(len(cs))}
		for _, c := range cs {
			ts = append(ts, c.stok())
		}
		caseLine = strings.Join(ts, " ")
	}
	var obs []string
	record := func(what string) {
		if skel {
			w.Case(id, caseLine, sortedLines(obs))
		} else {
			w.ImplOnly(id, what)
		}
	}
	if pnc != nil {
		w.Count("outcome:panic")
		w.Violation(id, "plan-panic", fmt.Sprintf("%s: %v", head, pnc))
		obs = []string{"panic"}
		record(head + " => panic")
		return
	}
	if err != nil {
		w.Count("outcome:error")
		w.Count("error:" + errClass(err.Error()))
		obs = []string{"error"}
		record(head + " => error")
		return
	}
	w.Count("outcome:planned")
	if expectReject && cfg.q != nil {
		// more than one schema among the Add/Drop/Modify/RenameTable tables, or a schema change,
		// accepted: unexpected.  Otherwise the second schema comes from an enum column or
		// from an enum object change, which CheckChangesScope skips (the recorded findings).
		cls := "plan-accepts-cross-schema"
		switch {
		case len(baseSchemas) > 1 || strings.Contains(desc, "schema"):
		case strings.Contains(desc, "cross=enum"):
			cls = "plan-accepts-cross-schema-enum"
		default:
			cls = "plan-accepts-cross-schema-other"
		}
		var first string
		if len(plan.Changes) > 0 {
			first = plan.Changes[0].Cmd
		}
		w.Violation(id, cls, fmt.Sprintf("%s: planned %d statement(s), first: %s", head, len(plan.Changes), oneLine(first)))
	}
	qo, qc := byte('`'), byte('`')
	if cfg.pg {
		qo, qc = '"', '"'
	}
	inPlace := cfg.mode.Is(migrate.PlanModeInPlace)
	n := 0
	for _, c := range plan.Changes {
		_, fromMS := c.Source.(*schema.ModifySchema)
		for ri, st := range append([]string{c.Cmd}, reverseStmts(c)...) {
			n++
			where := "cmd"
			if ri > 0 {
				where = "reverse"
			}
			chs, lits, inLits := judgeLex(w, id, head, where, st, cfg)
			obs = append(obs, join(map[bool]string{false: "c", true: "r"}[ri > 0], stmtHead(st), refChains(chs, cfg.pg)))
			w.NonTrivial(dial + "|" + qclass(cfg.q) + "|" + stmtShape(st, qo, qc))
			if cfg.q == nil {
				// no qualifier requested: references carry the object's own schema
				checkChains(w, id, head, where, st, append(chs[:len(chs):len(chs)], inLits...), cfg, cfg.marker, true)
				continue
			}
			if fromMS && inPlace {
				continue // ModifySchema is allowed for in-place plans on the scoped schema
			}
			up := strings.ToUpper(st)
			for _, p := range schemaStmt {
				if strings.HasPrefix(up, p) {
					w.Violation(id, "schema-statement", fmt.Sprintf("%s: %s statement %s", head, where, oneLine(st)))
				}
			}
			if mentions(st, cfg.marker, chs, lits) {
				w.Violation(id, "marker-leak", fmt.Sprintf("%s: %s statement mentions the schema name %s: %s", head, where, cfg.marker, oneLine(st)))
			}
			checkChains(w, id, head, where, st, append(chs[:len(chs):len(chs)], inLits...), cfg, *cfg.q, false)
		}
	}
	if skel && cfg.mode != migrate.PlanModeUnsortedDump {
		// DetachCycles / SortChanges (M-SORT) may split statements (foreign keys of table
		// cycles, drops of referenced tables).  The skeleton models the planners without
		// that rewriting: when the sorted plan differs as a multiset of statements from the
		// unsorted one, the unsorted plan is what is compared with the model (the oracle
		// above has seen the sorted one).
		if o2, ok := unsortedObs(cfg, cs); ok && strings.Join(sortedLines(obs), "\n") != strings.Join(sortedLines(o2), "\n") {
			w.Count("skel:sort-rewritten")
			obs = o2
		}
	}
	record(fmt.Sprintf("%s => %d statements", head, n))
}

// unsortedObs plans the same change set with PlanModeUnsortedDump and returns its
// statement observations.
func unsortedObs(cfg planCfg, cs []dchange) (obs []string, ok bool) {
	defer func() {
		if recover() != nil {
			ok = false
		}
	}()
	wd := &world{pg: cfg.pg, tables: map[string]*schema.Table{}, full: map[string]bool{}}
	for _, c := range cs {
		switch c.k {
		case "AT", "DT", "MT", "RT":
			wd.table(c.t)
		}
	}
	var real []schema.Change
	for _, c := range cs {
		real = append(real, wd.change(c))
	}
	opts := []migrate.PlanOption{func(o *migrate.PlanOptions) {
		o.SchemaQualifier, o.Mode, o.Indent = cfg.q, migrate.PlanModeUnsortedDump, cfg.indent
	}}
	var plan *migrate.Plan
	var err error
	if cfg.pg {
		plan, err = postgres.DefaultPlan.PlanChanges(context.Background(), "p", real, opts...)
	} else {
		plan, err = mysql.DefaultPlan.PlanChanges(context.Background(), "p", real, opts...)
	}
	if err != nil {
		return nil, false
	}
	for _, c := range plan.Changes {
		for ri, st := range append([]string{c.Cmd}, reverseStmts(c)...) {
			chs, _, _ := lexChains(repairKnown(st, cfg), cfg.pg)
			obs = append(obs, join(map[bool]string{false: "c", true: "r"}[ri > 0], stmtHead(st), refChains(chs, cfg.pg)))
		}
	}
	return obs, true
}

func oneLine(s string) string { return strings.Join(strings.Fields(s), " ") }

// stmtShape: the statement with identifiers and literals blanked (distinct statement forms).
func stmtShape(st string, qo, qc byte) string {
	var sb strings.Builder
	in := false
	for i := 0; i < len(st); i++ {
		c := st[i]
		if !in && c == qo {
			in = true
			sb.WriteByte('?')
			continue
		}
		if in {
			if c == qc {
				in = false
			}
			continue
		}
		if c >= '0' && c <= '9' {
			continue
		}
		sb.WriteByte(c)
	}
	return oneLine(sb.String())
}

// checkChains: every table / type / sequence reference, and every index reference in a
// reference position, is qualified by exactly want ("" = no schema component); with
// own = true (no qualifier requested) by the schema the object lives in.
func checkChains(w *out.W, id, head, where, st string, chs []chain, cfg planCfg, want string, own bool) {
	// round 3: a chain in an object position must name an object of the change set (a
	// qualifier glued into the name, or a mangled name, is not a reference to it)
	for k, cl := range refPositions(st, chs, cfg.pg) {
		found := false
		for _, p := range chs[k].parts {
			found = found || classOfName(p) == cl
		}
		if !found {
			w.Violation(id, "reference-unrecognised-"+cl, fmt.Sprintf("%s: %s statement: the chain %q stands where a %s is referenced and names no %s of the change set: %s", head, where, chs[k].parts, cl, cl, oneLine(st)))
		}
	}
	for _, c := range chs {
		for k, p := range c.parts {
			cl := classOfName(p)
			if cl == "" {
				continue
			}
			if cl == "index" && !(cfg.pg && indexRefPos(c)) {
				break
			}
			if cl == "type" && c.prev[2] == "TO" && c.prev[1] == "RENAME" {
				break // the new name of ALTER TYPE ... RENAME TO is a bare name in PostgreSQL
			}
			exp := want
			if own {
				exp = ""
				name := p
				if cl == "seq" {
					name = ""
					for k := range cfg.ownOf { // <table>_<column>_seq
						if strings.HasPrefix(p, k+"_") && len(k) > len(name) {
							name = k
						}
					}
				}
				if s, ok := cfg.ownOf[name]; ok && s != nil {
					exp = *s
				}
			}
			have := c.parts[:k]
			ok := len(have) == 0
			if exp != "" {
				ok = len(have) == 1 && have[0] == exp
			}
			if !ok {
				cls := "qualifier-missing"
				if own {
					cls = "own-schema-missing"
				}
				w.Violation(id, cls+"-"+cl, fmt.Sprintf("%s: %s statement: %s reference %s is qualified by %q, want %q: %s", head, where, cl, p, have, exp, oneLine(st)))
			}
			break
		}
	}
}

// refPositions: the chains of the statement that stand in an object-reference position, by
// index, with the class of object referenced there (statement heads of the two planners).
func refPositions(st string, chs []chain, pg bool) map[int]string {
	pos := map[int]string{}
	if len(chs) == 0 {
		return pos
	}
	h := stmtHead(st)
	switch h {
	case "CREATE_TABLE", "DROP_TABLE", "ALTER_TABLE", "RENAME_TABLE":
		pos[0] = "table"
	case "ALTER_INDEX":
		pos[0] = "index"
	case "DROP_INDEX":
		if pg {
			pos[0] = "index"
		}
	case "CREATE_TYPE", "DROP_TYPE", "ALTER_TYPE":
		pos[0] = "type"
	case "CREATE_SEQUENCE", "DROP_SEQUENCE":
		pos[0] = "seq"
	case "COMMENT_ON":
		switch chs[0].prev[2] {
		case "TABLE", "COLUMN":
			pos[0] = "table"
		case "INDEX":
			pos[0] = "index"
		case "TYPE":
			pos[0] = "type"
		}
	}
	for k, c := range chs {
		p := c.prev
		switch {
		case p[2] == "REFERENCES":
			pos[k] = "table"
		case p[2] == "TO" && p[1] == "RENAME" && (h == "ALTER_TABLE" || h == "RENAME_TABLE"):
			pos[k] = "table"
		case p[2] == "TO" && p[1] == "<id>" && h == "RENAME_TABLE":
			pos[k] = "table"
		case p[2] == "ON" && (h == "CREATE_INDEX" || h == "DROP_INDEX"):
			pos[k] = "table"
		case p[2] == "BY" && p[1] == "OWNED":
			pos[k] = "table"
		}
	}
	return pos
}

// ---- generator

type gen struct {
	r       *rng.R
	skel    bool // only the fragment Qual/RefSkeleton.v models
	acyclic bool // foreign keys only point to tables drawn earlier
	pg      bool
	marker  string
	other   string
	n       int
	names   map[string]string // name -> class ("" = column / constraint / ...)
	shapeOf map[string]string // name prefix -> shape every such name gets (sweep)
	rshape  int               // random shapes: 1 name in rshape is shaped (0 = never)
	noQuote bool              // no shape that the planners are known to mis-write (quote char, backslash)
}

func classOfPrefix(p string) string {
	switch p {
	case "t_":
		return "table"
	case "e_":
		return "type"
	case "i_":
		return "index"
	}
	return ""
}

// shaped applies a shape to a fresh plain word and registers the result.
func (g *gen) shaped(base, shp, class string) string {
	if g.names == nil {
		g.names = map[string]string{}
	}
	n := base
	switch shp {
	case "", "plain":
	case "keyword":
		for _, k := range keywords {
			if _, used := g.names[k]; !used {
				n = k
				break
			}
		}
	default:
		n = shapeByName(shp).f(base, g.pg)
	}
	g.names[n] = class
	return n
}

func (g *gen) pickShape() string {
	if g.rshape == 0 || g.r.Intn(g.rshape) != 0 {
		return "plain"
	}
	for {
		s := rng.Pick(g.r, append([]string{"keyword"}, shapeNames()...))
		if g.noQuote && (s == "quote" || s == "backslash") {
			continue
		}
		return s
	}
}

func shapeNames() []string {
	var ns []string
	for _, s := range shapes {
		ns = append(ns, s.name)
	}
	return ns
}

func (g *gen) name(p string) string {
	g.n++
	base := fmt.Sprintf("%s%c%d", p, 'a'+byte(g.r.Intn(6)), g.n)
	shp, ok := g.shapeOf[p]
	if !ok {
		shp = g.pickShape()
	}
	return g.shaped(base, shp, classOfPrefix(p))
}

func (g *gen) col(sch *string) dcol {
	c := dcol{name: g.name("c_"), typ: rng.Pick(g.r, []string{"int", "int", "text", "bool"}), null: g.r.Bool()}
	if g.r.Chance(1, 4) {
		c.typ, c.enum, c.eschema = "enum", g.name("e_"), sch
	}
	if g.r.Chance(1, 4) {
		c.comment = "note " + strconv.Itoa(g.r.Intn(100))
	}
	if g.r.Chance(1, 4) && c.typ == "int" {
		c.def = strconv.Itoa(g.r.Intn(50))
	}
	return c
}

func (g *gen) idx(t dtab) didx {
	i := didx{name: g.name("i_"), unique: g.r.Chance(1, 3)}
	n := 1 + g.r.Intn(2)
	for k := 0; k < n && k < len(t.cols); k++ {
		i.cols = append(i.cols, t.cols[(k+g.r.Intn(len(t.cols)))%len(t.cols)].name)
	}
	if g.pg && g.r.Chance(1, 5) {
		i.uconst = true
	}
	if g.r.Chance(1, 4) {
		i.comment = "idx note"
	}
	return i
}

func (g *gen) tab(sch *string, prefix string) dtab {
	t := dtab{schema: sch, name: g.name(prefix)}
	for k := 1 + g.r.Intn(3); k > 0; k-- {
		t.cols = append(t.cols, g.col(sch))
	}
	t.cols[0].typ, t.cols[0].null, t.cols[0].def = "int", false, ""
	if g.r.Chance(2, 3) {
		t.pk = []string{t.cols[0].name}
	}
	for k := g.r.Intn(3); k > 0; k-- {
		t.idx = append(t.idx, g.idx(t))
	}
	if g.r.Chance(1, 3) {
		t.chks = append(t.chks, dchk{g.name("k_"), "(" + quoteIdent(t.cols[0].name, g.pg) + " > 0)"})
	}
	if g.r.Chance(1, 3) {
		t.comment = "table note"
	}
	return t
}

func (g *gen) fkTo(t, ref dtab) dfk {
	return dfk{sym: g.name("f_"), cols: []string{t.cols[len(t.cols)-1].name}, ref: ref.name, rschema: ref.schema, rcols: []string{ref.cols[0].name}}
}

func (g *gen) subs(t dtab, others []dtab) []dsub {
	var ss []dsub
	kinds := []string{"AC", "DC", "MC", "MC", "RC", "AI", "DI", "MI", "RI", "AF", "DF", "MF", "AK", "DK", "MK", "APK", "DPK", "MPK", "ATC", "MTC"}
	if g.skel {
		kinds = skelSubs
	}
	for k := 1 + g.r.Intn(3+2*map[bool]int{true: 1}[g.skel]); k > 0; k-- {
		s := dsub{k: rng.Pick(g.r, kinds)}
		c0 := t.cols[g.r.Intn(len(t.cols))]
		ref := t
		if len(others) > 0 {
			ref = others[g.r.Intn(len(others))]
		} else if g.acyclic && (s.k == "AF" || s.k == "DF" || s.k == "MF") {
			s.k = "AK"
		}
		switch s.k {
		case "AC":
			s.col = g.col(t.schema)
		case "DC":
			s.col = c0
		case "MC":
			s.col, s.col2 = c0, c0
			s.chg = rng.Pick(g.r, []string{"type", "null", "default", "comment", "type+null", "null+comment"})
			if strings.Contains(s.chg, "type") {
				switch {
				case g.pg && g.r.Chance(1, 3) && c0.typ == "int" && !c0.null:
					s.col2.typ, s.col2.def = "serial", ""
				case g.r.Chance(1, 3):
					s.col2.typ, s.col2.enum, s.col2.eschema, s.col2.def = "enum", g.name("e_"), t.schema, ""
				default:
					s.col2.typ, s.col2.def = rng.Pick(g.r, []string{"int", "text"}), ""
					if s.col2.typ == c0.typ {
						s.col2.typ = "bool"
					}
				}
			}
			if strings.Contains(s.chg, "null") {
				s.col2.null = !c0.null
			}
			if s.chg == "default" {
				if g.r.Bool() || c0.def == "" {
					s.col2.typ, s.col.typ, s.col2.def = "int", "int", strconv.Itoa(60+g.r.Intn(30))
				} else {
					s.col2.def = ""
				}
			}
			if strings.Contains(s.chg, "comment") {
				s.col2.comment = "new note"
			}
			if s.col2.typ == "serial" {
				s.col2.null = false
			}
		case "RC":
			s.col, s.col2 = c0, c0
			s.col2.name = g.name("c_")
		case "AI", "DI":
			s.idx = g.idx(t)
		case "MI":
			s.idx = g.idx(t)
			s.idx2 = s.idx
			s.chg = rng.Pick(g.r, []string{"parts", "comment", "parts+comment"})
			if strings.Contains(s.chg, "parts") {
				s.idx2.cols = []string{t.cols[0].name}
			}
			if strings.Contains(s.chg, "comment") {
				s.idx.comment, s.idx2.comment = "old idx note", "new idx note"
			} else {
				s.idx2.comment = s.idx.comment
			}
		case "RI":
			s.idx = g.idx(t)
			s.idx2 = s.idx
			s.idx2.name = g.name("i_")
		case "AF", "DF":
			s.fk = g.fkTo(t, ref)
		case "MF":
			s.fk = g.fkTo(t, ref)
			s.fk2 = s.fk
			s.fk2.rcols = []string{ref.cols[len(ref.cols)-1].name}
		case "AK", "DK":
			s.chk = dchk{g.name("k_"), "(" + quoteIdent(c0.name, g.pg) + " <> 3)"}
			if g.r.Chance(1, 6) && s.k == "AK" {
				s.chk.name = ""
			}
		case "MK":
			s.chk = dchk{g.name("k_"), "(" + quoteIdent(c0.name, g.pg) + " <> 3)"}
			s.chk2 = dchk{s.chk.name, "(" + quoteIdent(c0.name, g.pg) + " <> 4)"}
		case "APK", "DPK":
			s.pk = []string{t.cols[0].name}
		case "MPK":
			s.pk, s.pk2 = []string{t.cols[0].name}, []string{t.cols[len(t.cols)-1].name}
		case "ATC":
			s.cm = "added note"
		case "MTC":
			s.cm, s.c2 = "old note", "new note"
		}
		ss = append(ss, s)
	}
	return ss
}

// changeSet draws a change set on the connected schema (named marker).  cross != "" adds
// one change that lives in / names the other schema.
func (g *gen) changeSet(sch *string, cross string) ([]dchange, string) {
	var cs []dchange
	var tabs []dtab
	for k := 1 + g.r.Intn(3); k > 0; k-- {
		tabs = append(tabs, g.tab(sch, "t_"))
	}
	// foreign keys between the tables.  acyclic: only to tables drawn earlier (no
	// DetachCycles statements, which are M-SORT's, in the skeleton stage's sorted modes).
	for i := range tabs {
		if g.r.Chance(1, 2) {
			j := g.r.Intn(len(tabs))
			if g.acyclic {
				if i == 0 {
					continue
				}
				j = g.r.Intn(i)
			}
			tabs[i].fks = append(tabs[i].fks, g.fkTo(tabs[i], tabs[j]))
		}
	}
	desc := []string{}
	for k := 1 + g.r.Intn(4); k > 0; k-- {
		ti := g.r.Intn(len(tabs))
		t := tabs[ti]
		kinds := []string{"AT", "AT", "DT", "RT", "MT", "MT", "MT", "MT"}
		if g.pg {
			kinds = append(kinds, "AO", "DO", "MO", "RO")
		}
		c := dchange{k: rng.Pick(g.r, kinds), t: t, flag: g.r.Chance(1, 4)}
		switch c.k {
		case "RT":
			c.t2 = dtab{schema: t.schema, name: g.name("t_"), cols: t.cols}
		case "MT":
			if g.acyclic {
				c.subs = g.subs(t, tabs[:ti])
			} else {
				c.subs = g.subs(t, tabs)
			}
		case "AO", "DO", "MO", "RO":
			c.ename, c.ename2, c.eschema = g.name("e_"), g.name("e_"), sch
			c.vals, c.vals2 = []string{"a", "b"}, []string{"a", "b", "c"}
		}
		cs = append(cs, c)
		desc = append(desc, c.k)
	}
	oth := sp(g.other)
	switch cross {
	case "table":
		cs = append(cs, dchange{k: rng.Pick(g.r, []string{"AT", "DT", "MT"}), t: g.tab(oth, "t_")})
		last := &cs[len(cs)-1]
		if last.k == "MT" {
			last.subs = g.subs(last.t, nil)
		}
	case "enum":
		t := g.tab(sch, "t_")
		t.cols = append(t.cols, dcol{name: g.name("c_"), typ: "enum", enum: g.name("e_"), eschema: oth})
		cs = append(cs, dchange{k: "AT", t: t})
	case "object":
		cs = append(cs, dchange{k: "AO", ename: g.name("e_"), eschema: oth, vals: []string{"a"}})
	case "rename":
		t := g.tab(sch, "t_")
		cs = append(cs, dchange{k: "RT", t: t, t2: dtab{schema: oth, name: g.name("t_"), cols: t.cols}})
	case "addschema":
		cs = append(cs, dchange{k: "AS", sname: g.marker})
	case "dropschema":
		cs = append(cs, dchange{k: "DS", sname: g.marker})
	case "modifyschema":
		cs = append(cs, dchange{k: "MS", sname: g.marker})
	}
	if cross != "" {
		// the cross change is not always last
		if g.r.Bool() {
			cs[0], cs[len(cs)-1] = cs[len(cs)-1], cs[0]
		}
		desc = append(desc, "cross="+cross)
	}
	return cs, strings.Join(desc, ",")
}

func runPlan(w *out.W, tier string, skel bool) {
	w.Rule = "distinct (dialect, qualifier class, statement form) triples seen in planned Cmd / reverse statements (identifiers and numbers blanked)"
	r := rng.FromEnv(0x9A17)
	cnt := 6000
	if tier == "thorough" {
		cnt = 120000
	}
	modes := []migrate.PlanMode{migrate.PlanModeUnset, migrate.PlanModeInPlace, migrate.PlanModeDeferred, migrate.PlanModeDump, migrate.PlanModeUnsortedDump}
	for i := 0; i < cnt; i++ {
		g := &gen{r: r, pg: i%2 == 1, skel: skel}
		// round 3: one case in three draws names, schema names and qualifiers with special
		// characters (one name in three shaped)
		if i%3 == 0 {
			g.rshape = 3
		}
		g.marker = g.shaped(fmt.Sprintf("mkr%dx", 100+r.Intn(900)), g.pickShape(), "")
		g.other = g.shaped(fmt.Sprintf("oth%dx", 100+r.Intn(900)), g.pickShape(), "")
		cfg := planCfg{pg: g.pg, marker: g.marker, other: g.other, mode: modes[r.Intn(len(modes))]}
		if skel && r.Bool() {
			cfg.mode = migrate.PlanModeUnsortedDump
		}
		switch (i / 3) % 3 {
		case 1:
			cfg.q = sp("")
		case 2:
			cfg.q = sp(g.shaped(fmt.Sprintf("qz%d", r.Intn(100)), g.pickShape(), ""))
		}
		if r.Chance(1, 3) {
			cfg.indent = "  "
		}
		cross := ""
		if !skel && r.Chance(1, 6) {
			cross = rng.Pick(r, []string{"table", "table", "enum", "object", "rename", "addschema", "dropschema", "modifyschema"})
			if !g.pg && (cross == "enum" || cross == "object") {
				cross = "table"
			}
		}
		sch := sp(g.marker)
		if cross == "" && r.Chance(1, 12) {
			sch = nil // tables, enums without a *schema.Schema
		}
		g.acyclic = skel && cfg.mode != migrate.PlanModeUnsortedDump
		cs, desc := g.changeSet(sch, cross)
		if sch == nil {
			desc += ",noschema"
		}
		expectReject := cross != ""
		if cross == "modifyschema" && cfg.mode.Is(migrate.PlanModeInPlace) && (cfg.q == nil || *cfg.q == "" || *cfg.q == g.marker) {
			expectReject = false
		}
		caseNames = g.names
		runPlanCase(w, fmt.Sprintf("p%d", i), cfg, cs, expectReject, desc, skel)
	}
	runSweep(w, tier, skel)
}

// sweepKinds: one representative change set per change kind / ModifyTable sub-change kind.
var sweepKinds = []string{"AT", "DT", "RT", "AO", "DO", "MO", "RO",
	"MT:AC", "MT:DC", "MT:MC", "MT:RC", "MT:AI", "MT:DI", "MT:MI", "MT:RI", "MT:AF", "MT:DF", "MT:MF",
	"MT:AK", "MT:DK", "MT:MK", "MT:APK", "MT:DPK", "MT:MPK", "MT:ATC", "MT:MTC"}

// sweepPos: which names of the case get the shape ("q" = the requested qualifier, "s" = the
// connected schema's name, else a name prefix).
var sweepPos = []string{"q", "s", "t_", "e_", "i_", "c_", "f_", "k_"}

// single draws a change set with exactly one change of the given kind on a table that has
// columns of every type, indexes, a check, comments and a foreign key to a second table.
func (g *gen) single(sch *string, kind string, variant int) ([]dchange, string) {
	ref := g.tab(sch, "t_")
	t := dtab{schema: sch, name: g.name("t_"), comment: "table note"}
	t.cols = []dcol{
		{name: g.name("c_"), typ: "int"},
		{name: g.name("c_"), typ: "text", null: true, comment: "note 1"},
		{name: g.name("c_"), typ: "enum", enum: g.name("e_"), eschema: sch},
		{name: g.name("c_"), typ: "int", null: true},
	}
	t.pk = []string{t.cols[0].name}
	t.idx = []didx{{name: g.name("i_"), cols: []string{t.cols[1].name}, comment: "idx note"}, {name: g.name("i_"), cols: []string{t.cols[3].name}, unique: true, uconst: g.pg}}
	t.chks = []dchk{{g.name("k_"), "(" + quoteIdent(t.cols[0].name, g.pg) + " > 0)"}}
	t.fks = []dfk{g.fkTo(t, ref)}
	k, sub, _ := strings.Cut(kind, ":")
	c := dchange{k: k, t: t, flag: variant%2 == 1}
	switch k {
	case "RT":
		c.t2 = dtab{schema: sch, name: g.name("t_"), cols: t.cols}
	case "MT":
		// the random generator draws the sub-change; retry until it is of the wanted kind
		for n := 0; ; n++ {
			ss := g.subs(t, []dtab{ref})
			if ss[0].k == sub {
				c.subs = ss[:1]
				break
			}
			if n > 2000 {
				panic("sweep: no sub-change of kind " + sub)
			}
		}
	case "AO", "DO", "MO", "RO":
		c.ename, c.ename2, c.eschema = g.name("e_"), g.name("e_"), sch
		c.vals, c.vals2 = []string{"a", "b"}, []string{"a", "b", "c"}
	}
	return []dchange{c}, "sweep," + kind
}

// runSweep: round 3, the systematic part: every shape (special characters, keywords) x every
// position (qualifier, schema name, table / enum / index / column / constraint names) x every
// change kind x qualifier {unset, "", custom} x dialect.
func runSweep(w *out.W, tier string, skel bool) {
	r := rng.FromEnv(0x5EE9)
	variants := 1
	if tier == "thorough" {
		variants = 6
	}
	id := 0
	shs := append([]string{"keyword"}, shapeNames()...)
	for _, pg := range []bool{false, true} {
		for _, shp := range shs {
			if shp == "plain" {
				continue
			}
			for _, pos := range sweepPos {
				for _, kind := range sweepKinds {
					if !pg && len(kind) == 2 && kind[1] == 'O' {
						continue // enum objects: PostgreSQL only
					}
					for qi := 0; qi < 3; qi++ {
						if pos == "q" && qi != 2 {
							continue
						}
						for v := 0; v < variants; v++ {
							id++
							g := &gen{r: r, pg: pg, skel: skel, acyclic: true, shapeOf: map[string]string{}}
							for _, p := range []string{"t_", "e_", "i_", "c_", "f_", "k_"} {
								g.shapeOf[p] = "plain"
							}
							if len(pos) == 2 {
								g.shapeOf[pos] = shp
							}
							ms, qs := "plain", "plain"
							if pos == "s" {
								ms = shp
							}
							if pos == "q" {
								qs = shp
							}
							g.marker = g.shaped(fmt.Sprintf("mkr%dx", 100+r.Intn(900)), ms, "")
							g.other = g.shaped(fmt.Sprintf("oth%dx", 100+r.Intn(900)), "plain", "")
							cfg := planCfg{pg: pg, marker: g.marker, other: g.other, mode: migrate.PlanModeUnsortedDump}
							if !skel {
								cfg.mode = []migrate.PlanMode{migrate.PlanModeUnset, migrate.PlanModeInPlace, migrate.PlanModeDeferred}[(id+v)%3]
							}
							switch qi {
							case 1:
								cfg.q = sp("")
							case 2:
								cfg.q = sp(g.shaped(fmt.Sprintf("qz%d", r.Intn(100)), qs, ""))
							}
							if (id+v)%4 == 0 {
								cfg.indent = "  "
							}
							cs, desc := g.single(sp(g.marker), kind, v+id)
							caseNames = g.names
							w.Count("sweep-shape:" + shp)
							w.Count("sweep-pos:" + pos)
							runPlanCase(w, fmt.Sprintf("w%d", id), cfg, cs, false, desc+","+shp+"@"+pos, skel)
						}
					}
				}
			}
		}
	}
}

// errClass: the error text with quoted names and numbers blanked (distribution only).
func errClass(m string) string {
	var sb strings.Builder
	in := false
	for i := 0; i < len(m); i++ {
		c := m[i]
		if c == '"' {
			in = !in
			continue
		}
		if in || c >= '0' && c <= '9' {
			continue
		}
		sb.WriteByte(c)
	}
	if sb.Len() > 80 {
		return sb.String()[:80]
	}
	return sb.String()
}
