package main

import (
	"sort"
	"strconv"
	"strings"
)

// ---- case-file text of the descriptors (the fragment Qual/RefSkeleton.v models)

func b01(b bool) string {
	if b {
		return "1"
	}
	return "0"
}

func (c dcol) etok() string {
	if c.typ == "enum" {
		return "e " + opt(c.eschema) + " " + hx(c.enum)
	}
	return "_"
}

// sertok: "_" = not a serial type, "s <SequenceName>" otherwise.
func (c dcol) sertok() string {
	if c.typ == "serial" || c.typ == "bigserial" {
		return "s " + hx(c.seq)
	}
	return "_"
}

func (c dcol) stok() string { return join(hx(c.name), c.etok(), b01(c.comment != "")) }

func (i didx) stok() string {
	ts := []string{hx(i.name), strconv.Itoa(len(i.cols))}
	for _, c := range i.cols {
		ts = append(ts, hx(c))
	}
	return join(append(ts, b01(i.uconst), b01(i.comment != ""))...)
}

func (f dfk) stok() string {
	ts := []string{strconv.Itoa(len(f.cols))}
	for _, c := range f.cols {
		ts = append(ts, hx(c))
	}
	return join(append(ts, opt(f.rschema), hx(f.ref))...)
}

func (t dtab) otok() string { return opt(t.schema) + " " + hx(t.name) }

func (t dtab) stok() string {
	ts := []string{t.otok(), strconv.Itoa(len(t.cols))}
	for _, c := range t.cols {
		ts = append(ts, c.stok())
	}
	ts = append(ts, strconv.Itoa(len(t.idx)))
	for _, i := range t.idx {
		ts = append(ts, i.stok())
	}
	ts = append(ts, strconv.Itoa(len(t.fks)))
	for _, f := range t.fks {
		ts = append(ts, f.stok())
	}
	return join(append(ts, b01(t.comment != ""))...)
}

func (s dsub) stok() string {
	switch s.k {
	case "AC", "DC":
		return s.k + " " + s.col.stok()
	case "RC":
		return "RC"
	case "AI", "DI":
		return s.k + " " + s.idx.stok()
	case "RI":
		return join("RI", hx(s.idx.name), hx(s.idx2.name))
	case "AF", "DF":
		return s.k + " " + s.fk.stok()
	case "AK":
		return "AK " + b01(s.chk.name != "")
	case "DK", "MK", "APK", "DPK", "MPK":
		return s.k
	case "MC":
		return join("MC", hx(s.col2.name), s.col.etok(), s.col2.etok(), s.col.sertok(), s.col2.sertok(),
			b01(strings.Contains(s.chg, "type")),
			b01(strings.Contains(s.chg, "null") || strings.Contains(s.chg, "default") || strings.Contains(s.chg, "attr")),
			b01(strings.Contains(s.chg, "comment")))
	case "MI":
		return join("MI", s.idx.stok(), s.idx2.stok(), b01(strings.Contains(s.chg, "parts")), b01(strings.Contains(s.chg, "comment")))
	case "MF":
		return join("MF", s.fk.stok(), s.fk2.stok())
	case "ATC":
		return "TCA"
	case "MTC":
		return "TC"
	}
	panic("unmodelled sub " + s.k)
}

func (c dchange) stok() string {
	switch c.k {
	case "AT", "DT":
		return c.k + " " + c.t.stok()
	case "RT":
		return join("RT", c.t.otok(), c.t2.otok())
	case "MT":
		ts := []string{"MT", c.t.stok(), strconv.Itoa(len(c.subs))}
		for _, s := range c.subs {
			ts = append(ts, s.stok())
		}
		return join(ts...)
	case "AO", "DO":
		return join(c.k, opt(c.eschema), hx(c.ename))
	case "MO":
		return join("MO", opt(c.eschema), hx(c.ename), strconv.Itoa(len(c.vals2)-len(c.vals)))
	case "RO":
		return join("RO", opt(c.eschema), hx(c.ename), opt(c.eschema), hx(c.ename2))
	}
	panic("unmodelled change " + c.k)
}

var skelSubs = []string{"AC", "DC", "MC", "MC", "RC", "AI", "DI", "MI", "RI", "AF", "DF", "MF", "AK", "DK", "MK", "APK", "DPK", "MPK", "ATC", "MTC"}

// stmtHead: the first two keywords (CREATE UNIQUE INDEX counts as CREATE INDEX).
func stmtHead(st string) string {
	f := strings.Fields(st)
	if len(f) < 2 {
		return strings.ToUpper(strings.Join(f, "_"))
	}
	a, b := strings.ToUpper(f[0]), strings.ToUpper(f[1])
	if a == "CREATE" && b == "UNIQUE" {
		b = "INDEX"
	}
	return a + "_" + b
}

// refChains: the reference projection of a statement: every chain that names a table,
// a type or a sequence, and every index chain in a reference position (PG).
func refChains(chs []chain, pg bool) string {
	var out []string
	for _, c := range chs {
		keep := false
		for _, p := range c.parts {
			switch classOfName(p) {
			case "table", "type", "seq":
				keep = true
			case "index":
				keep = keep || (pg && indexRefPos(c))
			}
		}
		if keep {
			var hs []string
			for _, p := range c.parts {
				hs = append(hs, hx(p))
			}
			out = append(out, strings.Join(hs, "."))
		}
	}
	if len(out) == 0 {
		return "-"
	}
	return strings.Join(out, ",")
}

func sortedLines(ls []string) []string { sort.Strings(ls); return ls }
