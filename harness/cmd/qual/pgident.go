package main

import (
	"context"
	"fmt"
	"strings"

	"ariga.io/atlas/sql/migrate"
	"ariga.io/atlas/sql/postgres"
	"ariga.io/atlas/sql/schema"

	"verifharness/internal/out"
	"verifharness/internal/rng"
)

// typeIdent and schemaPrefix are unexported methods of the postgres planner state.
// They are observed through postgres.DefaultPlan:
//
//	AddObject{EnumType{T: name, Schema: ns}}  -> "CREATE TYPE " + typeIdent(ns, name) + " AS ENUM ()"
//	ModifyColumn int -> serial on table t(ns)  -> "CREATE SEQUENCE IF NOT EXISTS " + schemaPrefix(ns) + `"t_c_seq" OWNED BY ...`
func pgObserve(q, ns *string, name string) (string, error) {
	var opts []migrate.PlanOption
	if q != nil {
		opts = append(opts, func(o *migrate.PlanOptions) { o.SchemaQualifier = q })
	}
	ctx := context.Background()
	p1, err := postgres.DefaultPlan.PlanChanges(ctx, "x", []schema.Change{
		&schema.AddObject{O: &schema.EnumType{T: name, Schema: mkSchema(ns)}},
	}, opts...)
	if err != nil {
		return "", err
	}
	cmd := p1.Changes[0].Cmd
	const h, t = "CREATE TYPE ", " AS ENUM ()"
	if !strings.HasPrefix(cmd, h) || !strings.HasSuffix(cmd, t) {
		return "", fmt.Errorf("unexpected %q", cmd)
	}
	typ := cmd[len(h) : len(cmd)-len(t)]
	tab := &schema.Table{Name: "t", Schema: mkSchema(ns)}
	from := &schema.Column{Name: "c", Type: &schema.ColumnType{Type: &schema.IntegerType{T: "integer"}}}
	to := &schema.Column{Name: "c", Type: &schema.ColumnType{Type: &postgres.SerialType{T: "serial"}}}
	tab.Columns = []*schema.Column{to}
	p2, err := postgres.DefaultPlan.PlanChanges(ctx, "x", []schema.Change{
		&schema.ModifyTable{T: tab, Changes: []schema.Change{&schema.ModifyColumn{From: from, To: to, Change: schema.ChangeType}}},
	}, opts...)
	if err != nil {
		return "", err
	}
	cmd = p2.Changes[0].Cmd
	const h2, t2 = "CREATE SEQUENCE IF NOT EXISTS ", `"t_c_seq" OWNED BY `
	i := strings.Index(cmd, t2)
	if !strings.HasPrefix(cmd, h2) || i < 0 {
		return "", fmt.Errorf("unexpected %q", cmd)
	}
	return "type=" + hx(typ) + " prefix=" + hx(cmd[len(h2):i]), nil
}

func runPgIdent(w *out.W, tier string) {
	w.Rule = "a case is non-trivial when a qualifier is requested or the type's schema is named"
	names := []string{"e", "E x", `a"b`, `a\b`, "a.b", "a'b", "x\ty", ""}
	scs := []*string{nil, se, s1, sp(`s"x`), sp("a.b")}
	n := 0
	one := func(id string, q, ns *string, name string) {
		line := join(opt(q), opt(ns), hx(name))
		obs, err := pgObserve(q, ns, name)
		if err != nil {
			obs = "error"
			w.Count("error")
		}
		w.Case(id, line, []string{obs})
		if q != nil || (ns != nil && *ns != "") {
			w.NonTrivial(line)
		}
	}
	for _, q := range scs {
		for _, ns := range scs {
			for _, nm := range names {
				n++
				one(fmt.Sprintf("x%d", n), q, ns, nm)
			}
		}
	}
	// round 3: every single byte inside the qualifier and inside the name (strconv.Quote, the
	// model's strconvQuote, byte by byte; a lone byte >= 0x80 is not valid UTF-8: \xHH), and
	// the shapes of names the other stages draw
	for b := 1; b < 256; b++ {
		n++
		one(fmt.Sprintf("x%d", n), sp("q"+string([]byte{byte(b)})+"z"), s1, "n"+string([]byte{byte(b)}))
	}
	for _, shp := range append([]string{"keyword"}, shapeNames()...) {
		g := &gen{pg: true}
		q := g.shaped("qz1", shp, "")
		for _, ns := range []*string{nil, s1, &q} {
			n++
			one(fmt.Sprintf("x%d", n), &q, ns, g.shaped("e_a2", shp, "type"))
			n++
			one(fmt.Sprintf("x%d", n), nil, ns, g.shaped("e_a3", shp, "type"))
		}
	}
	w.Exhaust = true
	r := rng.FromEnv(0x1DE7)
	cnt := 1500
	if tier == "thorough" {
		cnt = 20000
	}
	for i := 0; i < cnt; i++ {
		one(fmt.Sprintf("r%d", i), rschema(r), rschema(r), rstr(r))
	}
}
