package main

import (
	"fmt"
	"strconv"
	"strings"

	"ariga.io/atlas/sql/migrate"
	"ariga.io/atlas/sql/schema"
	"ariga.io/atlas/sql/verifx"

	"verifharness/internal/out"
	"verifharness/internal/rng"
)

// ---- change sets for CheckChangesScope

type scol struct {
	enum    bool
	eschema *string
}

type stab struct {
	schema *string
	cols   []scol
}

type schg struct {
	k        string  // MS AS DS AT MT DT RT OT
	s        *string // MS: schema; RT: From.Schema
	s2       *string // RT: To.Schema
	t        stab
	mentions []string
}

func (t stab) tok() string {
	ts := []string{opt(t.schema), strconv.Itoa(len(t.cols))}
	for _, c := range t.cols {
		if c.enum {
			ts = append(ts, "e", opt(c.eschema))
		} else {
			ts = append(ts, "p")
		}
	}
	return strings.Join(ts, " ")
}

func (c schg) tok() string {
	switch c.k {
	case "MS":
		return "MS " + opt(c.s)
	case "AS", "DS":
		return c.k
	case "AT", "MT", "DT":
		return c.k + " " + c.t.tok()
	case "RT":
		return join("RT", opt(c.s), opt(c.s2))
	}
	ts := []string{"OT", strconv.Itoa(len(c.mentions))}
	for _, m := range c.mentions {
		ts = append(ts, hx(m))
	}
	return strings.Join(ts, " ")
}

func (t stab) real(name string) *schema.Table {
	rt := &schema.Table{Name: name, Schema: mkSchema(t.schema)}
	for i, c := range t.cols {
		col := &schema.Column{Name: fmt.Sprintf("c%d", i), Type: &schema.ColumnType{Type: &schema.IntegerType{T: "int"}}}
		if c.enum {
			col.Type = &schema.ColumnType{Type: &schema.EnumType{T: "e", Values: []string{"a"}, Schema: mkSchema(c.eschema)}}
		}
		rt.Columns = append(rt.Columns, col)
	}
	return rt
}

func (c schg) real(i int) schema.Change {
	name := fmt.Sprintf("t%d", i)
	switch c.k {
	case "MS":
		return &schema.ModifySchema{S: mkSchema(c.s)}
	case "AS":
		return &schema.AddSchema{S: schema.New("x")}
	case "DS":
		return &schema.DropSchema{S: schema.New("x")}
	case "AT":
		return &schema.AddTable{T: c.t.real(name)}
	case "MT":
		return &schema.ModifyTable{T: c.t.real(name)}
	case "DT":
		return &schema.DropTable{T: c.t.real(name)}
	case "RT":
		return &schema.RenameTable{
			From: &schema.Table{Name: name, Schema: mkSchema(c.s)},
			To:   &schema.Table{Name: name + "x", Schema: mkSchema(c.s2)},
		}
	}
	// the change kinds CheckChangesScope skips
	switch len(c.mentions) {
	case 0:
		return &schema.AddView{V: &schema.View{Name: "v"}}
	case 1:
		return &schema.AddObject{O: &schema.EnumType{T: "e", Schema: schema.New(c.mentions[0])}}
	default:
		return &schema.RenameObject{
			From: &schema.EnumType{T: "e", Schema: schema.New(c.mentions[0])},
			To:   &schema.EnumType{T: "f", Schema: schema.New(c.mentions[1])},
		}
	}
}

// classify maps the error of CheckChangesScope to the model's enum (texts are not compared).
func classifyScope(err error) string {
	if err == nil {
		return "ok"
	}
	m := err.Error()
	switch {
	case strings.HasPrefix(m, "found "):
		var n int
		fmt.Sscanf(m, "found %d schemas", &n)
		return fmt.Sprintf("multi:%d", n)
	case strings.HasPrefix(m, "modify schema "):
		return "modify-other"
	case strings.HasPrefix(m, "*schema.ModifySchema is not allowed"):
		return "modify-not-allowed"
	case strings.HasPrefix(m, "*schema.AddSchema is not allowed"), strings.HasPrefix(m, "*schema.DropSchema is not allowed"):
		return "schema-change"
	}
	return "unknown-error"
}

// specNames: every schema name a change set mentions (the property's notion).
func specNames(cs []schg) map[string]bool {
	names := map[string]bool{}
	add := func(s *string) {
		if s != nil && *s != "" {
			names[*s] = true
		}
	}
	for _, c := range cs {
		switch c.k {
		case "MS":
			add(c.s)
		case "RT":
			add(c.s)
			add(c.s2)
		case "AT", "MT", "DT":
			add(c.t.schema)
			for _, col := range c.t.cols {
				if col.enum {
					add(col.eschema)
				}
			}
		case "OT":
			for _, m := range c.mentions {
				add(&m)
			}
		}
	}
	return names
}

func runScopeCase(w *out.W, id string, q *string, mode migrate.PlanMode, cs []schg) {
	ts := []string{opt(q), strconv.Itoa(int(mode)), strconv.Itoa(len(cs))}
	var real []schema.Change
	for i, c := range cs {
		ts = append(ts, c.tok())
		real = append(real, c.real(i))
	}
	line := strings.Join(ts, " ")
	res := func() (o string) {
		defer func() {
			if r := recover(); r != nil {
				o = "panic"
			}
		}()
		return classifyScope(verifx.CheckChangesScope(migrate.PlanOptions{SchemaQualifier: q, Mode: mode}, real))
	}()
	w.Case(id, line, []string{"res=" + res})
	w.Count("res:" + strings.SplitN(res, ":", 2)[0])
	// ---- oracle (property text): rejected iff >1 schema named, or Add/DropSchema,
	// or ModifySchema where the mode / scope forbids it.
	names := specNames(cs)
	mustReject := len(names) > 1
	nilMS, enumCross, otherCross, emptyT := false, false, false, false
	for _, c := range cs {
		switch c.k {
		case "AS", "DS":
			mustReject = true
		case "MS":
			inPlace := mode == migrate.PlanModeInPlace || mode&migrate.PlanModeInPlace != 0
			if !inPlace {
				mustReject = true
			} else if c.s == nil {
				nilMS = true
			} else if q != nil && *q != "" && *q != *c.s {
				mustReject = true
			}
		case "AT", "MT", "DT":
			for _, col := range c.t.cols {
				if col.enum && col.eschema != nil && *col.eschema != "" {
					if c.t.schema == nil || *c.t.schema != *col.eschema {
						enumCross = true
					}
					if c.t.schema != nil && *c.t.schema == "" {
						emptyT = true
					}
				}
			}
		case "OT":
			if len(c.mentions) > 0 {
				otherCross = true
			}
		}
	}
	if len(names) > 1 || enumCross || otherCross {
		w.NonTrivial(line)
	}
	rejected := res != "ok"
	detail := fmt.Sprintf("q=%s mode=%d changes=[%s] names=%d res=%s", opt(q), mode, strings.Join(ts[3:], " | "), len(names), res)
	switch {
	case res == "panic" && !nilMS:
		w.Violation(id, "scope-panic", detail)
	case res == "panic":
		// ModifySchema with a nil S: outside the property's inputs.
	case mustReject && !rejected:
		// Which part of the specification did the code miss?  base = what the code is
		// documented to count (table schemas + ModifySchema); anything accepted with
		// more than one base name is an unexpected violation.
		base := len(specNamesBase(cs))
		e, o := len(specNamesWithoutOthers(cs)), len(specNamesWithoutEnums(cs))
		cls := "scope-accepts-cross-schema"
		switch {
		case len(names) <= 1:
			cls = "scope-accepts-schema-change" // Add/Drop/ModifySchema that must be refused
		case base > 1:
		case e > 1 && o <= 1:
			cls = "scope-accepts-cross-schema-enum"
		case o > 1 && e <= 1:
			cls = "scope-accepts-cross-schema-other"
		default:
			cls = "scope-accepts-cross-schema-enum-and-other"
		}
		w.Violation(id, cls, detail)
	case !mustReject && rejected:
		cls := "scope-rejects-single-schema"
		if emptyT {
			cls = "scope-rejects-single-schema-empty-table-schema"
		}
		w.Violation(id, cls, detail)
	}
}

// names without the enum schemas (what is left if enum columns are ignored)
func specNamesWithoutEnums(cs []schg) map[string]bool {
	var cp []schg
	for _, c := range cs {
		c2 := c
		c2.t.cols = nil
		cp = append(cp, c2)
	}
	return specNames(cp)
}

// names without the non-table change kinds
func specNamesWithoutOthers(cs []schg) map[string]bool {
	var cp []schg
	for _, c := range cs {
		if c.k != "OT" {
			cp = append(cp, c)
		}
	}
	return specNames(cp)
}

// table schemas + ModifySchema only
func specNamesBase(cs []schg) map[string]bool {
	var cp []schg
	for _, c := range cs {
		if c.k != "OT" {
			c2 := c
			c2.t.cols = nil
			cp = append(cp, c2)
		}
	}
	return specNames(cp)
}

func scopeAlphabet() []schg {
	var al []schg
	al = append(al, schg{k: "MS", s: s1}, schg{k: "MS", s: s2}, schg{k: "MS", s: nil}, schg{k: "AS"}, schg{k: "DS"})
	colsets := [][]scol{nil, {{true, s1}}, {{true, s2}}, {{false, nil}, {true, se}}}
	for _, s := range []*string{nil, se, s1, s2} {
		for _, cs := range colsets {
			al = append(al, schg{k: "AT", t: stab{s, cs}})
		}
	}
	al = append(al,
		schg{k: "MT", t: stab{s1, nil}},
		schg{k: "MT", t: stab{s2, []scol{{true, s1}}}},
		schg{k: "DT", t: stab{s1, []scol{{true, nil}}}},
		schg{k: "DT", t: stab{nil, []scol{{true, s2}}}},
		schg{k: "OT"},
		schg{k: "OT", mentions: []string{"s2"}},
		schg{k: "OT", mentions: []string{"s1", "s2"}},
		schg{k: "RT", s: s1, s2: s2},
		schg{k: "RT", s: s1, s2: s1},
		schg{k: "RT", s: nil, s2: s2},
		schg{k: "RT", s: se, s2: s1},
	)
	return al
}

func runScope(w *out.W, tier string) {
	w.Rule = "a case is non-trivial when the change set names more than one schema, or has an enum column whose schema differs from its table's, or an object change that names a schema"
	al := scopeAlphabet()
	quals := []*string{nil, se, s1}
	modes := []migrate.PlanMode{0, 1, 2, 3, 4}
	n := 0
	emit := func(cs []schg, qs []*string, ms []migrate.PlanMode) {
		for qi, q := range qs {
			for _, m := range ms {
				n++
				runScopeCase(w, fmt.Sprintf("x%d.%d.%d", n, qi, m), q, m, cs)
			}
		}
	}
	emit(nil, quals, modes)
	for _, a := range al {
		emit([]schg{a}, quals, modes)
		for _, b := range al {
			emit([]schg{a, b}, quals, modes)
			for _, c := range al {
				if tier == "thorough" {
					emit([]schg{a, b, c}, quals, modes)
				} else {
					emit([]schg{a, b, c}, []*string{se, s1}, []migrate.PlanMode{1, 2})
				}
			}
		}
	}
	w.Exhaust = true
	w.Set("exhaustive_bound", fmt.Sprintf("all change sets of <= 3 changes over %d representative changes (2 schema names, nil and empty schemas, enum columns, schema changes, other kinds) x qualifier x mode", len(al)))
	r := rng.FromEnv(0x5C0E)
	cnt := 5000
	if tier == "thorough" {
		cnt = 100000
	}
	for i := 0; i < cnt; i++ {
		k := r.Intn(7)
		var cs []schg
		for j := 0; j < k; j++ {
			cs = append(cs, rschg(r))
		}
		var q *string
		switch r.Intn(4) {
		case 1:
			q = se
		case 2:
			q = s1
		case 3:
			q = sp("other")
		}
		runScopeCase(w, fmt.Sprintf("r%d", i), q, migrate.PlanMode(r.Intn(6)), cs)
	}
}

func rsch3(r *rng.R) *string {
	return rng.Pick(r, []*string{nil, se, s1, s1, s1, s2, sp("s3")})
}

func rschg(r *rng.R) schg {
	switch r.Intn(12) {
	case 0:
		return schg{k: "MS", s: rng.Pick(r, []*string{s1, s1, s2, nil})}
	case 1:
		return schg{k: rng.Pick(r, []string{"AS", "DS"})}
	case 3:
		return schg{k: "RT", s: rsch3(r), s2: rsch3(r)}
	case 2:
		var ms []string
		for i := r.Intn(3); i > 0; i-- {
			ms = append(ms, *rng.Pick(r, []*string{s1, s1, s2}))
		}
		return schg{k: "OT", mentions: ms}
	}
	t := stab{schema: rsch3(r)}
	for i := r.Intn(4); i > 0; i-- {
		if r.Bool() {
			t.cols = append(t.cols, scol{true, rsch3(r)})
		} else {
			t.cols = append(t.cols, scol{})
		}
	}
	return schg{k: rng.Pick(r, []string{"AT", "MT", "DT"}), t: t}
}
