package main

// Round 5: a database/sql driver ("fakeqmy") that answers mysql.Open's variablesQuery with the
// version given as DSN and returns no rows otherwise: the way to the MariaDB flavour of the MySQL
// planner (state.Maria()) and to the TiDB planner (tplanApply: flat, one ALTER per change), which
// mysql.DefaultPlan does not reach.

import (
	"context"
	"database/sql"
	"database/sql/driver"
	"io"
	"strings"

	"ariga.io/atlas/sql/migrate"
	"ariga.io/atlas/sql/mysql"
)

type (
	fakeQMy     struct{}
	fakeQMyConn struct{ version string }
	fakeQMyStmt struct {
		c fakeQMyConn
		q string
	}
	fakeQRows struct {
		cols []string
		rows [][]driver.Value
	}
)

func init() { sql.Register("fakeqmy", fakeQMy{}) }

func (fakeQMy) Open(dsn string) (driver.Conn, error)             { return fakeQMyConn{dsn}, nil }
func (c fakeQMyConn) Prepare(q string) (driver.Stmt, error)     { return fakeQMyStmt{c, q}, nil }
func (fakeQMyConn) Close() error                                { return nil }
func (fakeQMyConn) Begin() (driver.Tx, error)                   { return nil, io.ErrUnexpectedEOF }
func (fakeQMyStmt) Close() error                                { return nil }
func (fakeQMyStmt) NumInput() int                               { return -1 }
func (fakeQMyStmt) Exec([]driver.Value) (driver.Result, error)  { return driver.RowsAffected(0), nil }
func (s fakeQMyStmt) Query([]driver.Value) (driver.Rows, error) { return s.c.answer(s.q), nil }
func (c fakeQMyConn) QueryContext(_ context.Context, q string, _ []driver.NamedValue) (driver.Rows, error) {
	return c.answer(q), nil
}
func (c fakeQMyConn) answer(q string) driver.Rows {
	if strings.Contains(q, "@@version") {
		return &fakeQRows{cols: []string{"v", "co", "cs", "lc"}, rows: [][]driver.Value{{c.version, "utf8mb4_general_ci", "utf8mb4", int64(0)}}}
	}
	return &fakeQRows{cols: []string{"x"}}
}
func (r *fakeQRows) Columns() []string { return r.cols }
func (r *fakeQRows) Close() error      { return nil }
func (r *fakeQRows) Next(dest []driver.Value) error {
	if len(r.rows) == 0 {
		return io.EOF
	}
	copy(dest, r.rows[0])
	r.rows = r.rows[1:]
	return nil
}

var myFamily = map[string]migrate.PlanApplier{}

// myPlanner: the PlanApplier mysql.Open returns for a server of the given version.
func myPlanner(version string) migrate.PlanApplier {
	if p, ok := myFamily[version]; ok {
		return p
	}
	db, err := sql.Open("fakeqmy", version)
	if err != nil {
		panic(err)
	}
	drv, err := mysql.Open(db)
	if err != nil {
		panic(err)
	}
	myFamily[version] = drv
	return drv
}

const (
	verMaria = "10.11.6-MariaDB-1:10.11.6+maria~ubu2204"
	verTiDB  = "5.7.25-TiDB-v6.1.0"
)
