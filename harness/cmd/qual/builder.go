package main

import (
	"fmt"
	"strconv"
	"strings"

	"ariga.io/atlas/sql/schema"
	"ariga.io/atlas/sql/verifx"

	"verifharness/internal/out"
	"verifharness/internal/rng"
)

// A node is one call on the real Builder.  Callback methods carry their bodies;
// flat() is the primitive-step sequence of the model (Builder.v: Wrap, WrapIndent,
// Quote, MapComma, MapIndent as derived sequences).
type node struct {
	k      string // P I T V F PR R TC TRc TRi VRc VRi SR FC PC II IO NL CM W WI MC MI Q WS WB CL I64
	strs   []string
	a, b   obj
	sch    *string
	n      int64
	bodies [][]node
}

type obj struct {
	schema *string
	name   string
}

func (o obj) tok() string { return opt(o.schema) + " " + hx(o.name) }

func mkSchema(s *string) *schema.Schema {
	if s == nil {
		return nil
	}
	return &schema.Schema{Name: *s}
}
func (o obj) table() *schema.Table { return &schema.Table{Name: o.name, Schema: mkSchema(o.schema)} }
func (o obj) view() *schema.View   { return &schema.View{Name: o.name, Schema: mkSchema(o.schema)} }
func (o obj) fn() *schema.Func     { return &schema.Func{Name: o.name, Schema: mkSchema(o.schema)} }
func (o obj) proc() *schema.Proc   { return &schema.Proc{Name: o.name, Schema: mkSchema(o.schema)} }

// exec applies the nodes to the real builder and returns the builder to continue on
// (Clone switches to the clone; it is generated at top level only).
func exec(b *verifx.Builder, ns []node) *verifx.Builder {
	for _, n := range ns {
		switch n.k {
		case "P":
			b.P(n.strs...)
		case "I64":
			b.Int64(n.n)
		case "I":
			b.Ident(n.strs[0])
		case "T":
			b.Table(n.a.table())
		case "V":
			b.View(n.a.view())
		case "F":
			b.Func(n.a.fn())
		case "PR":
			b.Proc(n.a.proc())
		case "R":
			b.RefTable(n.a.table(), n.b.table())
		case "TC":
			b.TableColumn(n.a.table(), &schema.Column{Name: n.strs[0]})
		case "TRc":
			b.TableResource(n.a.table(), &schema.Column{Name: n.strs[0]})
		case "TRi":
			b.TableResource(n.a.table(), &schema.Index{Name: n.strs[0]})
		case "VRc":
			b.ViewResource(n.a.view(), &schema.Column{Name: n.strs[0]})
		case "VRi":
			b.ViewResource(n.a.view(), &schema.Index{Name: n.strs[0]})
		case "SR":
			b.SchemaResource(mkSchema(n.sch), n.strs[0])
		case "FC":
			b.FuncCall(n.a.fn(), n.strs...)
		case "PC":
			b.ProcCall(n.a.proc(), n.strs...)
		case "II":
			b.IndentIn()
		case "IO":
			b.IndentOut()
		case "NL":
			b.NL()
		case "CM":
			b.Comma()
		case "W":
			b.Wrap(func(b *verifx.Builder) { exec(b, n.bodies[0]) })
		case "WI":
			b.WrapIndent(func(b *verifx.Builder) { exec(b, n.bodies[0]) })
		case "MC":
			b.MapComma(n.bodies, func(i int, b *verifx.Builder) { exec(b, n.bodies[i]) })
		case "MI":
			b.MapIndent(n.bodies, func(i int, b *verifx.Builder) { exec(b, n.bodies[i]) })
		case "Q":
			b.Quote(n.strs[0], func(b *verifx.Builder) { exec(b, n.bodies[0]) })
		case "WS":
			b.WriteString(n.strs[0])
		case "WB":
			b.WriteByte(byte(n.n))
		case "CL":
			b = b.Clone()
		default:
			panic("node " + n.k)
		}
	}
	return b
}

func flat(ns []node, acc *[]string) {
	add := func(ts ...string) { *acc = append(*acc, strings.Join(ts, " ")) }
	for _, n := range ns {
		switch n.k {
		case "P":
			ts := []string{"P", strconv.Itoa(len(n.strs))}
			for _, s := range n.strs {
				ts = append(ts, hx(s))
			}
			add(ts...)
		case "I64":
			add("P", "1", hx(strconv.FormatInt(n.n, 10)))
		case "I":
			add("I", hx(n.strs[0]))
		case "T", "V", "F", "PR":
			add("T", n.a.tok())
		case "R":
			add("R", n.a.tok(), n.b.tok())
		case "TC", "TRc", "TRi", "VRc", "VRi":
			add("TR", n.a.tok(), hx(n.strs[0]))
		case "SR":
			add("SR", opt(n.sch), hx(n.strs[0]))
		case "FC", "PC":
			ts := []string{"FC", n.a.tok(), strconv.Itoa(len(n.strs))}
			for _, s := range n.strs {
				ts = append(ts, hx(s))
			}
			add(ts...)
		case "II", "IO", "NL", "CM":
			add(n.k)
		case "W":
			add("WO")
			flat(n.bodies[0], acc)
			add("WC")
		case "WI":
			add("WO")
			add("II")
			flat(n.bodies[0], acc)
			add("IO")
			add("NL")
			add("WC")
		case "MC":
			for i, f := range n.bodies {
				if i > 0 {
					add("CM")
				}
				flat(f, acc)
			}
		case "MI":
			for i, f := range n.bodies {
				if i > 0 {
					add("CM")
				}
				add("NL")
				flat(f, acc)
			}
		case "Q":
			add("QO", hx(n.strs[0]))
			flat(n.bodies[0], acc)
			add("QC")
		case "WS":
			add("WS", hx(n.strs[0]))
		case "WB":
			add("WB", strconv.FormatInt(n.n, 10))
		case "CL":
			add("CL")
		}
	}
}

type bcfg struct {
	qo, qc byte
	q      *string
	indent string
}

func runOne(w *out.W, id string, c bcfg, ns []node) {
	var fl []string
	flat(ns, &fl)
	line := join(strconv.Itoa(int(c.qo)), strconv.Itoa(int(c.qc)), opt(c.q), hx(c.indent), strconv.Itoa(len(fl)), strings.Join(fl, " "))
	obs := func() (o string) {
		defer func() {
			if r := recover(); r != nil {
				o = "panic"
			}
		}()
		b := &verifx.Builder{QuoteOpening: c.qo, QuoteClosing: c.qc, Schema: c.q, Indent: c.indent}
		b = exec(b, ns)
		return "buf=" + hx(b.Buffer.String()) + " str=" + hx(b.String())
	}()
	w.Case(id, line, []string{obs})
	// distribution + non-trivial rule
	if obs == "panic" {
		w.Count("panic")
	}
	qual, cross := false, false
	var walk func(ns []node)
	walk = func(ns []node) {
		for _, n := range ns {
			w.Count("op:" + n.k)
			switch n.k {
			case "T", "V", "F", "PR", "TC", "TRc", "TRi", "VRc", "VRi", "SR", "FC", "PC":
				qual = true
			case "R":
				qual = true
				if c.q != nil && *c.q == "" && n.a.schema != nil && n.b.schema != nil && *n.a.schema != "" && *n.b.schema != "" && *n.a.schema != *n.b.schema {
					cross = true
				}
			}
			for _, b := range n.bodies {
				walk(b)
			}
		}
	}
	walk(ns)
	if cross {
		w.Count("cross-schema-reftable")
	}
	if qual {
		w.NonTrivial(line)
	}
}

var (
	s1 = sp("s1")
	s2 = sp("s2")
	se = sp("")
)

func alphabet() []node {
	st := obj{s1, "t"}
	return []node{
		{k: "P", strs: []string{"x"}},
		{k: "P", strs: []string{"", "y "}},
		{k: "I", strs: []string{"a"}},
		{k: "I", strs: []string{""}},
		{k: "T", a: obj{nil, "t"}},
		{k: "T", a: st},
		{k: "V", a: obj{se, "t"}},
		{k: "F", a: obj{s1, ""}},
		{k: "R", a: obj{s1, "c"}, b: obj{s2, "p"}},
		{k: "R", a: obj{s1, "c"}, b: obj{s1, "p"}},
		{k: "R", a: obj{nil, "c"}, b: obj{s2, "p"}},
		{k: "TRc", a: st, strs: []string{"c"}},
		{k: "TRi", a: obj{nil, "t"}, strs: []string{""}},
		{k: "SR", sch: s1, strs: []string{"i"}},
		{k: "SR", sch: nil, strs: []string{"i"}},
		{k: "FC", a: obj{s1, "f"}, strs: []string{"1", "2"}},
		{k: "PC", a: obj{nil, "f"}},
		{k: "II"}, {k: "IO"}, {k: "NL"}, {k: "CM"},
		{k: "W", bodies: [][]node{{}}},
		{k: "W", bodies: [][]node{{{k: "I", strs: []string{"a"}}}}},
		{k: "WI", bodies: [][]node{{{k: "T", a: st}}}},
		{k: "MC", bodies: [][]node{{{k: "I", strs: []string{"a"}}}, {{k: "T", a: st}}}},
		{k: "MI", bodies: [][]node{{{k: "I", strs: []string{"a"}}}, {{k: "WS", strs: []string{"b"}}}}},
		{k: "Q", strs: []string{"E"}, bodies: [][]node{{{k: "P", strs: []string{"x"}}}}},
		{k: "WS", strs: []string{"z"}},
		{k: "WB", n: ' '},
		{k: "CL"},
	}
}

func runBuilder(w *out.W, tier string) {
	w.Rule = "a case is non-trivial when its call sequence contains at least one qualifying call (Table/View/Func/Proc/RefTable/TableColumn/TableResource/ViewResource/SchemaResource/FuncCall/ProcCall)"
	alpha := alphabet()
	maxLen := 3
	if tier == "thorough" {
		maxLen = 4
	}
	quals := []*string{nil, se, sp("q")}
	n := 0
	var rec func(prefix []node, depth int)
	emit := func(seq []node) {
		for qi, q := range quals {
			for ii, ind := range []string{"", "  "} {
				if tier == "thorough" && len(seq) == 4 && ii == 1 {
					continue
				}
				n++
				runOne(w, fmt.Sprintf("x%d.%d.%d", n, qi, ii), bcfg{'`', '`', q, ind}, seq)
			}
		}
	}
	rec = func(prefix []node, depth int) {
		emit(prefix)
		if depth == maxLen {
			return
		}
		for _, a := range alpha {
			rec(append(append([]node{}, prefix...), a), depth+1)
		}
	}
	rec(nil, 0)
	w.Exhaust = true
	w.Set("exhaustive_bound", fmt.Sprintf("all call sequences of length <= %d over %d representative calls x qualifier {nil, \"\", \"q\"} x indent {\"\", \"  \"}", maxLen, len(alpha)))
	// random structured sequences
	r := rng.FromEnv(0xB01D)
	cnt := 4000
	if tier == "thorough" {
		cnt = 60000
	}
	for i := 0; i < cnt; i++ {
		c := bcfg{'"', '"', nil, ""}
		if r.Bool() {
			c.qo, c.qc = '`', '`'
		}
		if r.Chance(1, 10) {
			c.qo, c.qc = '[', ']'
		}
		switch r.Intn(3) {
		case 1:
			c.q = se
		case 2:
			c.q = sp(rstr(r))
		}
		if r.Chance(1, 2) {
			c.indent = rng.Pick(r, []string{"  ", "\t", " "})
		}
		seq := rnodes(r, 1+r.Intn(10), 0, true)
		runOne(w, fmt.Sprintf("r%d", i), c, seq)
	}
}

const alphaChars = "abcXYZ019_ .\"`'()\\,\n\t-$%"

func rstr(r *rng.R) string {
	switch r.Intn(8) {
	case 0:
		return ""
	case 1:
		return rng.Pick(r, []string{"s1", "s2", "public", "t", "users"})
	}
	n := 1 + r.Intn(6)
	b := make([]byte, n)
	for i := range b {
		b[i] = alphaChars[r.Intn(len(alphaChars))]
	}
	return string(b)
}

func rschema(r *rng.R) *string {
	switch r.Intn(5) {
	case 0:
		return nil
	case 1:
		return se
	case 2:
		return s1
	case 3:
		return s2
	}
	return sp(rstr(r))
}

func robj(r *rng.R) obj { return obj{rschema(r), rstr(r)} }

func rnodes(r *rng.R, n, depth int, top bool) []node {
	var ns []node
	for i := 0; i < n; i++ {
		ns = append(ns, rnode(r, depth, top))
	}
	return ns
}

func rnode(r *rng.R, depth int, top bool) node {
	kinds := []string{"P", "P", "I", "I", "T", "T", "V", "F", "PR", "R", "R", "TC", "TRc", "TRi", "VRc", "VRi", "SR", "FC", "PC", "II", "IO", "NL", "CM", "WS", "WB", "I64"}
	if depth < 3 {
		kinds = append(kinds, "W", "WI", "MC", "MI", "Q")
	}
	if top {
		kinds = append(kinds, "CL")
	}
	k := rng.Pick(r, kinds)
	n := node{k: k}
	body := func() []node { return rnodes(r, r.Intn(4), depth+1, false) }
	switch k {
	case "P":
		for i := r.Intn(4); i > 0; i-- {
			n.strs = append(n.strs, rstr(r))
		}
	case "I", "WS":
		n.strs = []string{rstr(r)}
	case "T", "V", "F", "PR":
		n.a = robj(r)
	case "R":
		n.a, n.b = robj(r), robj(r)
	case "TC", "TRc", "TRi", "VRc", "VRi":
		n.a, n.strs = robj(r), []string{rstr(r)}
	case "SR":
		n.sch, n.strs = rschema(r), []string{rstr(r)}
	case "FC", "PC":
		n.a = robj(r)
		n.strs = []string{}
		for i := r.Intn(3); i > 0; i-- {
			n.strs = append(n.strs, rstr(r))
		}
	case "WB":
		n.n = int64(alphaChars[r.Intn(len(alphaChars))])
	case "I64":
		n.n = int64(r.Intn(2000)) - 1000
	case "W", "WI":
		n.bodies = [][]node{body()}
	case "Q":
		n.strs = []string{rstr(r)}
		n.bodies = [][]node{body()}
	case "MC", "MI":
		n.bodies = [][]node{}
		for i := r.Intn(4); i > 0; i-- {
			n.bodies = append(n.bodies, body())
		}
	}
	return n
}
