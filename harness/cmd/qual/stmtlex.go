package main

// Round 5, stage `stmtlex`: the oracle's statement tokenizer (lexChains: identifier chains outside
// string literals, the literals, malformed or not) vs the extracted Coq scanner Qual/StmtLex.v
// (lex_stmt), on EVERY statement the stages insp and skel generate (Cmd and reverse statements, as
// planned and after repairKnown) and on every short text over the lexically relevant bytes.

import (
	"fmt"
	"os"
	"strings"

	"verifharness/internal/out"
	"verifharness/internal/rng"
)

// stmtSink, when set, receives every statement judgeLex reads.
var stmtSink func(st string, pg bool)

func stmtLexObs(st string, pg bool) string {
	chs, lits, mal := lexChains(st, pg)
	var cs, ls []string
	for _, c := range chs {
		var hs []string
		for _, p := range c.parts {
			hs = append(hs, hx(p))
		}
		cs = append(cs, strings.Join(hs, "."))
	}
	for _, l := range lits {
		ls = append(ls, hx(l))
	}
	j := func(x []string) string {
		if len(x) == 0 {
			return "_"
		}
		return strings.Join(x, ",")
	}
	return "chains=" + j(cs) + " lits=" + j(ls) + " bad=" + b01(mal != "")
}

func runStmtLex(w *out.W, tier string) {
	w.Rule = "distinct (dialect, number of chains, number of literals, malformed) classes of the tokenized texts"
	seen := map[string]bool{}
	n := 0
	emit := func(st string, pg bool, src string) {
		k := b01(pg) + st
		if seen[k] || st == "" {
			return
		}
		seen[k] = true
		n++
		obs := stmtLexObs(st, pg)
		w.Case(fmt.Sprintf("l%d", n), b01(pg)+" "+hx(st), []string{obs})
		w.Count("source:" + src)
		chs, lits, mal := lexChains(st, pg)
		w.NonTrivial(fmt.Sprintf("%v|%d|%d|%v", pg, len(chs), len(lits), mal != ""))
		if mal != "" {
			w.Count("malformed")
		}
	}
	// (a) every statement of the generated plans
	tmp, err := os.MkdirTemp("", "stmtlex")
	if err != nil {
		panic(err)
	}
	defer os.RemoveAll(tmp)
	src := "insp"
	stmtSink = func(st string, pg bool) { emit(st, pg, src) }
	w1 := out.New(tmp + "/insp")
	runInsp(w1, tier)
	w1.Close()
	src = "skel"
	w2 := out.New(tmp + "/skel")
	if tier != "thorough" {
		planCountOverride = 1500 // + the whole 12 672-case sweep
	}
	runPlan(w2, tier, true)
	planCountOverride = 0
	w2.Close()
	stmtSink = nil
	// (b) every text of length <= 5 (thorough: 7) over the bytes the grammar distinguishes
	alpha := []byte{'"', '`', '\'', '.', 'a', ' ', '\\'}
	maxLen := 5
	if tier == "thorough" {
		maxLen = 7
	}
	var rec func(cur []byte)
	rec = func(cur []byte) {
		if len(cur) > 0 {
			emit(string(cur), false, "exhaustive")
			emit(string(cur), true, "exhaustive")
		}
		if len(cur) == maxLen {
			return
		}
		for _, b := range alpha {
			rec(append(cur, b))
		}
	}
	rec(nil)
	// (c) random longer texts with words, digits, dollar signs, high bytes, newlines
	r := rng.FromEnv(0x57A7)
	pool := []string{`"`, "`", "'", ".", "a", "Z", "_", "1", "$", " ", "\\", "\n", ",", "(", ")", "\x80", `""`, "``", "''", `"."`, "`.`"}
	cnt := 10000
	if tier == "thorough" {
		cnt = 400000
	}
	for i := 0; i < cnt; i++ {
		var sb strings.Builder
		for k := 1 + r.Intn(14); k > 0; k-- {
			sb.WriteString(rng.Pick(r, pool))
		}
		emit(sb.String(), i%2 == 0, "random")
	}
}
