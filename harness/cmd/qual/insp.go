package main

// Round 5, stage `insp`: schema elements AS INSPECTED.  The tables handed to the planners by
// `atlas migrate diff` / `schema apply` come from the inspectors and carry attributes no
// hand-built table has: postgres.SerialType{SequenceName}, Identity, OID, IndexType,
// IndexColumnProperty, IndexPredicate; mysql.CreateStmt (SHOW CREATE TABLE text), AutoIncrement,
// Engine, CreateOptions, Charset / Collation, IndexType, IndexParser, SubPart, OnUpdate,
// Enforced.  Enumerated from `AddAttrs(` / `Attrs = append(` in sql/mysql/inspect_oss.go,
// sql/postgres/inspect_oss.go (convert.go attaches none).  Every change kind is planned on such
// tables x qualifier {unset, "", custom} and every Cmd AND reverse statement is judged by the
// property oracle and tied to the extended skeleton (Qual/RefSkeleton.v).

import (
	"fmt"
	"strings"

	"ariga.io/atlas/sql/migrate"
	"ariga.io/atlas/sql/mysql"
	"ariga.io/atlas/sql/postgres"
	"ariga.io/atlas/sql/schema"

	"verifharness/internal/out"
	"verifharness/internal/rng"
)

func supportsText(c dcol) bool { return c.typ == "text" }

// inspColumn: the attributes sql/{mysql,postgres}/inspect_oss.go attach to a column.
func (w *world) inspColumn(col *schema.Column, c dcol) {
	if w.pg {
		return // Identity (dcol.ident), SerialType.SequenceName (dcol.seq): part of the descriptor
	}
	if supportsText(c) {
		col.Attrs = append(col.Attrs, &schema.Charset{V: "utf8mb4"}, &schema.Collation{V: "utf8mb4_0900_ai_ci"})
	}
}

// inspIndex: IndexType (both), IndexParser / SubPart (MySQL), IndexColumnProperty (PG).
func (w *world) inspIndex(idx *schema.Index) {
	if w.pg {
		idx.Attrs = append(idx.Attrs, &postgres.IndexType{T: "btree"})
		for _, p := range idx.Parts {
			p.Attrs = append(p.Attrs, &postgres.IndexColumnProperty{NullsLast: true})
		}
		return
	}
	idx.Attrs = append(idx.Attrs, &mysql.IndexType{T: "BTREE"}, &mysql.IndexParser{P: "ngram"})
	for _, p := range idx.Parts {
		if st, ok := p.C.Type.Type.(*schema.StringType); ok && st.Size > 16 {
			p.Attrs = append(p.Attrs, &mysql.SubPart{Len: 16})
		}
	}
}

// showCreate: what SHOW CREATE TABLE answers (no schema name in it: the statement is relative
// to the current database).
func showCreate(t *schema.Table) string {
	var cols []string
	for _, c := range t.Columns {
		cols = append(cols, "  `"+strings.ReplaceAll(c.Name, "`", "``")+"` int NOT NULL")
	}
	return "CREATE TABLE `" + strings.ReplaceAll(t.Name, "`", "``") + "` (\n" + strings.Join(cols, ",\n") +
		"\n) ENGINE=InnoDB AUTO_INCREMENT=7 DEFAULT CHARSET=utf8mb4 COLLATE=utf8mb4_0900_ai_ci"
}

// inspTable: the attributes the inspectors attach to a table.
func (w *world) inspTable(t *schema.Table, d dtab) {
	if w.pg {
		t.Attrs = append(t.Attrs, &postgres.OID{V: 16384 + int64(len(d.name))})
		return
	}
	t.Attrs = append(t.Attrs,
		&schema.Charset{V: "utf8mb4"}, &schema.Collation{V: "utf8mb4_0900_ai_ci"},
		&mysql.CreateOptions{V: "row_format=DYNAMIC"}, &mysql.Engine{V: "InnoDB", Default: true})
	auto := &mysql.AutoIncrement{V: 7}
	t.Attrs = append(t.Attrs, auto)
	if len(d.pk) > 0 {
		if c, ok := t.Column(d.pk[0]); ok {
			if _, isInt := c.Type.Type.(*schema.IntegerType); isInt && c.Default == nil {
				c.Attrs = append(c.Attrs, auto)
			}
		}
	}
	for _, a := range t.Attrs {
		if ck, ok := a.(*schema.Check); ok {
			ck.Attrs = append(ck.Attrs, &mysql.Enforced{V: true})
		}
	}
	t.Attrs = append(t.Attrs, &mysql.CreateStmt{S: showCreate(t)})
}

// ---- generator

type colKind struct {
	name  string
	typ   string
	seq   string // "" none, "default" = <table>_<column>_seq as inspected, "custom" = another owned sequence
	ident bool
}

var pgColKinds = []colKind{
	{"int", "int", "", false}, {"bigint", "bigint", "", false},
	{"serial", "serial", "", false}, {"serial-inspected", "serial", "default", false},
	{"serial-custom-seq", "serial", "custom", false}, {"bigserial-custom-seq", "bigserial", "custom", false},
	{"identity", "int", "", true},
	{"enum", "enum", "", false},
}

func (k colKind) apply(c dcol, t dtab, custom string) dcol {
	c.typ, c.ident, c.seq, c.def, c.null = k.typ, k.ident, "", "", false
	c.enum, c.eschema = "", nil
	if k.typ == "enum" {
		c.enum, c.eschema = custom+"_e", t.schema // (registered by the caller)
	}
	switch k.seq {
	case "default":
		c.seq = t.name + "_" + c.name + "_seq"
	case "custom":
		c.seq = custom
	}
	return c
}

// chgOfDiff asks the real differ which ModifyColumn.Change it reports for the column.
func chgOfDiff(cfg planCfg, t dtab, from, to dcol) (string, bool) {
	mk := func(c dcol) *schema.Table {
		w := &world{pg: cfg.pg, insp: cfg.insp, tables: map[string]*schema.Table{}, full: map[string]bool{}}
		d := t
		d.cols = append([]dcol{}, t.cols...)
		for i := range d.cols {
			if d.cols[i].name == c.name {
				d.cols[i] = c
			}
		}
		d.idx, d.fks, d.chks = nil, nil, nil
		return w.table(d)
	}
	var cs []schema.Change
	var err error
	func() {
		defer func() {
			if recover() != nil {
				err = fmt.Errorf("panic")
			}
		}()
		if cfg.pg {
			cs, err = postgres.DefaultDiff.TableDiff(mk(from), mk(to))
		} else {
			cs, err = mysql.DefaultDiff.TableDiff(mk(from), mk(to))
		}
	}()
	if err != nil {
		return "", false
	}
	for _, c := range cs {
		m, ok := c.(*schema.ModifyColumn)
		if !ok || m.To.Name != to.name {
			continue
		}
		var ps []string
		k := m.Change
		for _, b := range []struct {
			k schema.ChangeKind
			s string
		}{{schema.ChangeType, "type"}, {schema.ChangeNull, "null"}, {schema.ChangeDefault, "default"}, {schema.ChangeComment, "comment"}, {schema.ChangeAttr, "attr"}} {
			if k.Is(b.k) {
				ps = append(ps, b.s)
				k &= ^b.k
			}
		}
		if k != schema.NoChange || len(ps) == 0 {
			return "", false
		}
		return strings.Join(ps, "+"), true
	}
	return "", false
}

var inspShapes = []string{"plain", "dot", "upper", "space", "keyword"}

func inspGen(r *rng.R, pg bool, shp string, qi int) (*gen, planCfg) {
	g := &gen{r: r, pg: pg, skel: true, acyclic: true, shapeOf: map[string]string{}}
	for _, p := range []string{"t_", "e_", "i_", "c_", "f_", "k_"} {
		g.shapeOf[p] = "plain"
	}
	if shp != "keyword" {
		g.shapeOf["t_"], g.shapeOf["c_"] = shp, shp
	}
	g.marker = g.shaped(fmt.Sprintf("mkr%dx", 100+r.Intn(900)), shp, "")
	g.other = g.shaped(fmt.Sprintf("oth%dx", 100+r.Intn(900)), "plain", "")
	cfg := planCfg{pg: pg, marker: g.marker, other: g.other, mode: migrate.PlanModeUnsortedDump, insp: true, errOK: true}
	switch qi {
	case 1:
		cfg.q = sp("")
	case 2:
		cfg.q = sp(g.shaped(fmt.Sprintf("qz%d", r.Intn(100)), shp, ""))
	}
	return g, cfg
}

// inspTab: a table with columns of every type, indexes, a check, comments and a foreign key.
func (g *gen) inspTab(sch *string, ref dtab) dtab {
	t := dtab{schema: sch, name: g.name("t_"), comment: "table note"}
	t.cols = []dcol{
		{name: g.name("c_"), typ: "int"},
		{name: g.name("c_"), typ: "text", null: true, comment: "note 1"},
		{name: g.name("c_"), typ: "int", null: true},
		{name: g.name("c_"), typ: "int"},
	}
	if g.pg {
		t.cols = append(t.cols, dcol{name: g.name("c_"), typ: "enum", enum: g.name("e_"), eschema: sch})
	}
	t.pk = []string{t.cols[0].name}
	t.idx = []didx{{name: g.name("i_"), cols: []string{t.cols[1].name}, comment: "idx note"}, {name: g.name("i_"), cols: []string{t.cols[2].name}, unique: true, uconst: g.pg}}
	t.chks = []dchk{{g.name("k_"), "(" + quoteIdent(t.cols[0].name, g.pg) + " > 0)"}}
	if ref.name != "" {
		t.fks = []dfk{g.fkTo(t, ref)}
	}
	return t
}

func runInsp(w *out.W, tier string) {
	w.Rule = "distinct (dialect, qualifier class, statement form) triples seen in planned Cmd / reverse statements of change sets on tables carrying the inspector-only attributes"
	r := rng.FromEnv(0x1A5B)
	id := 0
	run := func(g *gen, cfg planCfg, cs []dchange, desc string) {
		id++
		caseNames = g.names
		// the TiDB planner plans one ALTER per sub-change (flat): oracle only, no skeleton tie
		runPlanCase(w, fmt.Sprintf("n%d", id), cfg, cs, false, "insp,"+desc, cfg.plannerName != "tidb")
	}
	reps := 1
	if tier == "thorough" {
		reps = 8
	}
	for rep := 0; rep < reps; rep++ {
		// (a) PostgreSQL: every transition between the column kinds, as an explicit ChangeType
		// (+ ChangeAttr when the identity attribute comes or goes) and as the real differ reports it
		for _, shp := range inspShapes {
			for qi := 0; qi < 3; qi++ {
				for fi, fk := range pgColKinds {
					for ti, tk := range pgColKinds {
						if fi == ti {
							continue
						}
						for variant := 0; variant < 4; variant++ {
							g, cfg := inspGen(r, true, shp, qi)
							sch := sp(g.marker)
							ref := g.tab(sch, "t_")
							t := g.inspTab(sch, ref)
							custom := g.shaped(fmt.Sprintf("posts%d_id_seq", g.n), g.shapeOf["t_"], "seq")
							g.names[custom+"_e"] = "type"
							ci := 3
							if variant%2 == 1 {
								ci = 0 // the primary-key column
							}
							from := fk.apply(t.cols[ci], t, custom)
							to := tk.apply(t.cols[ci], t, custom)
							t.cols[ci] = from
							chg := "type"
							if fk.typ == tk.typ && fk.seq == tk.seq {
								chg = ""
							}
							if fk.ident != tk.ident {
								chg = strings.TrimPrefix(chg+"+attr", "+")
							}
							how := "explicit"
							if variant >= 2 {
								how = "differ"
								c, ok := chgOfDiff(cfg, t, from, to)
								if !ok {
									w.Count("insp-differ:no-modify:" + fk.name + ">" + tk.name)
									continue
								}
								chg = c
							}
							if chg == "" {
								continue
							}
							sub := dsub{k: "MC", col: from, col2: to, chg: chg}
							cs := []dchange{{k: "MT", t: t, subs: []dsub{sub}}}
							if variant%2 == 1 {
								// next to other sub-changes of the same table
								cs[0].subs = append([]dsub{{k: "AI", idx: didx{name: g.name("i_"), cols: []string{t.cols[1].name}}}}, cs[0].subs...)
								cs[0].subs = append(cs[0].subs, dsub{k: "DC", col: t.cols[2]})
							}
							w.Count("insp-transition:" + fk.name + ">" + tk.name)
							w.Count("insp-chg:" + chg)
							run(g, cfg, cs, fmt.Sprintf("pg,%s>%s,%s,%s,%s", fk.name, tk.name, how, chg, shp))
						}
					}
				}
			}
		}
		// (b) the MySQL family (mysql.DefaultPlan, MariaDB and TiDB planners of mysql.Open) and PostgreSQL: every top-level change kind and every ModifyTable sub-change kind on a
		// decorated table (PG: with an inspected serial and an identity column)
		for _, fam := range []string{"mysql", "maria", "tidb", "pg"} {
			pg := fam == "pg"
			for _, shp := range inspShapes {
				for qi := 0; qi < 3; qi++ {
					for _, kind := range sweepKinds {
						if !pg && len(kind) == 2 && kind[1] == 'O' {
							continue
						}
						for v := 0; v < 2; v++ {
							g, cfg := inspGen(r, pg, shp, qi)
							switch fam {
							case "maria":
								cfg.planner, cfg.plannerName = myPlanner(verMaria), fam
							case "tidb":
								cfg.planner, cfg.plannerName = myPlanner(verTiDB), fam
							}
							sch := sp(g.marker)
							ref := g.tab(sch, "t_")
							t := g.inspTab(sch, ref)
							if pg {
								custom := g.shaped(fmt.Sprintf("posts%d_id_seq", g.n), g.shapeOf["t_"], "seq")
								t.cols[0] = pgColKinds[4+v].apply(t.cols[0], t, custom)
								t.cols[3] = pgColKinds[6].apply(t.cols[3], t, custom)
							}
							k, sub, _ := strings.Cut(kind, ":")
							c := dchange{k: k, t: t, flag: v == 1}
							switch k {
							case "RT":
								c.t2 = dtab{schema: sch, name: g.name("t_"), cols: t.cols}
							case "MT":
								plain := t
								plain.cols = t.cols[1:3]
								for n := 0; ; n++ {
									ss := g.subs(plain, []dtab{ref})
									if ss[0].k == sub {
										c.subs = ss[:1]
										break
									}
									if n > 4000 {
										panic("insp: no sub-change of kind " + sub)
									}
								}
							case "AO", "DO", "MO", "RO":
								c.ename, c.ename2, c.eschema = g.name("e_"), g.name("e_"), sch
								c.vals, c.vals2 = []string{"a", "b"}, []string{"a", "b", "c"}
							}
							w.Count("insp-kind:" + kind)
							run(g, cfg, []dchange{c}, fmt.Sprintf("%s,%s,%s", fam, kind, shp))
						}
					}
				}
			}
		}
	}
}

var _ = out.New
