// Command hist checks property C12 ("an edited applied prefix is refused, cleanly") on two
// scenario classes the statement alphabets of the other stages do not reach (round 5):
//
//   - edits of already-applied statements that change only white space (a double blank inside a
//     string literal becoming single, a line break inside a literal becoming a blank,
//     re-indentation / internal line breaks, tabs vs blanks, CRLF vs LF inside a statement, blanks
//     before the delimiter), next to edits that change the *file* but not the scanned statement
//     (blanks after the delimiter, leading blank lines, a comment, CRLF line ends): the property is
//     about the statements as scanned (Stmt.Text), so the first kind must be refused when it hits an
//     applied statement and the second kind must resume;
//
//   - file-name shapes on the refusal path: version-only names, several underscores, "h1:"-like
//     and unusual characters, very long names.
//
//     -mode api  Executor.ExecuteN of sql/migrate on a MemDir with the recording driver / store
//     -mode cli  the real binary ($ATLAS_BIN) on SQLite: `migrate apply` with every --tx-mode and
//     the default and the JSON log format
//
// Both modes print the raw PartialHashes texts ("h1:" + base64(sha256(texts so far))); the model
// side recomputes them with its own SHA-256 from the scanned statement texts alone, so a change
// of the hash input (normalisation, comments, a separator) is a correspondence break.
// The property oracle is evaluated on the real observations.
package main

import (
	"encoding/json"
	"flag"
	"fmt"
	"os"
	"path/filepath"
	"regexp"
	"runtime"
	"strconv"
	"strings"

	"ariga.io/atlas/sql/migrate"

	"verifharness/internal/clirun"
	"verifharness/internal/execrun"
	"verifharness/internal/out"
)

// ---------------------------------------------------------------- statements and their variants

type variant struct {
	name string
	raw  string // the statement as written in the file, with its line end
	lit  string // the value the statement inserts into journal.note
}

func variants(id int) []variant {
	mk := func(name, pre, mid, lit, post string) variant {
		return variant{name, fmt.Sprintf("INSERT%sINTO journal%sVALUES (%d, '%s')%s", pre, mid, id, lit, post), lit}
	}
	base := mk("base", " ", " ", "a  b", ";\n")
	return []variant{
		base,
		// edits that change Stmt.Text
		mk("lit-blank", " ", " ", "a b", ";\n"),                                          // double blank inside a literal -> single
		mk("lit-newline", " ", " ", "a\nb", ";\n"),                                       // line break inside a literal
		mk("lit-crlf", " ", " ", "a\r\nb", ";\n"),                                        // CRLF inside a literal
		mk("lit-tab", " ", " ", "a\tb", ";\n"),                                           // tab inside a literal
		mk("break", " ", "\n", "a  b", ";\n"),                                            // internal line break
		mk("indent", " ", "\n    ", "a  b", ";\n"),                                       // re-indented continuation line
		mk("indent-tab", " ", "\n\t", "a  b", ";\n"),                                     // tab vs blanks
		mk("crlf", " ", "\r\n    ", "a  b", ";\n"),                                       // CRLF vs LF inside a multi-line statement
		mk("tab", "\t", " ", "a  b", ";\n"),                                              // tab between key words
		mk("blank-delim", " ", " ", "a  b", "  ;\n"),                                     // blanks before the delimiter
		mk("trail-line", " ", " \n", "a  b", ";\n"),                                      // a blank before an internal line break
		{"lower", fmt.Sprintf("insert into journal values (%d, 'a  b');\n", id), "a  b"}, // not white space: the key words in lower case
		// edits that do not change Stmt.Text (the scanner trims / drops them)
		mk("blank-after", " ", " ", "a  b", ";   \n"), // blanks after the delimiter
		{"leading", "\n   " + base.raw, base.lit},     // leading blank line and indentation
		{"comment", "-- checked on monday\n" + base.raw, base.lit},
		mk("crlf-eol", " ", " ", "a  b", ";\r\n"), // CRLF line end
	}
}

func content(n int, vs []int) string {
	var b strings.Builder
	for i := 0; i < n; i++ {
		b.WriteString(variants(i + 1)[vs[i]].raw)
	}
	return b.String()
}

var reID = regexp.MustCompile(`(?i)VALUES \((\d+),`)

// ---------------------------------------------------------------- names

var names = []string{
	"1_a.sql",
	"2.sql",              // version only: what `atlas migrate new` writes without a name
	"20240102030405.sql", // the same with a time stamp version
	"3_add_users_table.sql",
	"4__x.sql",
	"5_.sql",
	"6_a_b_c_d.sql",
	"7_h1:abc=.sql", // looks like a sum-file hash
	"8_a b.sql",
	"9_ü-ñ.sql",
	"10_a'b\"c.sql",
	"11_%s%d%v.sql", // formatting verbs
	"12_a.b.sql.sql",
	"13_" + strings.Repeat("x", 200) + ".sql", // very long
	"14_{{.}}.sql", // template syntax (the log formats are templates)
	"15_-- x.sql",
	"16_a\\b.sql",
	"17.5_dotted.sql", // a dot inside the version
}

// ---------------------------------------------------------------- scanning (the real code)

type scanned struct {
	name    string
	version string
	desc    string
	texts   []string
}

func scanFiles(d migrate.Dir) ([]scanned, error) {
	files, err := d.Files()
	if err != nil {
		return nil, err
	}
	var r []scanned
	for _, f := range files {
		stmts, err := f.StmtDecls()
		if err != nil {
			return nil, err
		}
		s := scanned{name: f.Name(), version: f.Version(), desc: f.Desc()}
		for _, st := range stmts {
			s.texts = append(s.texts, st.Text)
		}
		r = append(r, s)
	}
	return r, nil
}

func fileTokens(fs []scanned) []string {
	toks := []string{fmt.Sprint(len(fs))}
	for _, f := range fs {
		toks = append(toks, execrun.Hex(f.name), "0", fmt.Sprint(len(f.texts)))
		for _, t := range f.texts {
			toks = append(toks, execrun.Hex(t))
		}
	}
	return toks
}

func showNames(fs []scanned) string {
	p := make([]string, len(fs))
	for i, f := range fs {
		p[i] = execrun.Hex(f.version) + "/" + execrun.Hex(f.desc)
	}
	return strings.Join(p, ",")
}

func find(fs []scanned, name string) scanned {
	for _, f := range fs {
		if f.name == name {
			return f
		}
	}
	return scanned{}
}

func eq(a, b []string) bool {
	if len(a) != len(b) {
		return false
	}
	for i := range a {
		if a[i] != b[i] {
			return false
		}
	}
	return true
}

func prefix(a []string, k int) []string {
	if k > len(a) {
		return a
	}
	return a[:k]
}

func firstDiff(old, new []string, k int) int {
	i := 0
	for i < k && i < len(new) && new[i] == old[i] {
		i++
	}
	return i
}

// ---------------------------------------------------------------- history description

type hist struct {
	id       string
	kind     string // ws | name
	name     string
	n, k, j  int
	a, b     int // variant of statement j before / after the edit
	modes    []string
	formats  []string // cli: log format of each run after the edit ("" = default text, "json")
	oldC     string
	newC     string
	editName string
	// double failure (api): the file fails a second time, as midC (statement 2 re-spelled while it was
	// still in the tail), at statement k2+1, before the edit
	midC string
	k2   int
}

func (h hist) desc() string {
	d := ""
	if h.midC != "" {
		d = fmt.Sprintf(" (double failure: then the file becomes %q and fails again at statement %d)", h.midC, h.k2+1)
	}
	return fmt.Sprintf("file %q of %d statements, first run fails at statement %d%s, then statement %d edited %s (%q -> %q), tx-modes %v formats %v",
		h.name, h.n, h.k+1, d, h.j+1, h.editName, variants(h.j + 1)[h.a].raw, variants(h.j + 1)[h.b].raw, h.modes, h.formats)
}

func mkHist(kind, name string, n, k, j, a, b int) hist {
	vo := make([]int, n)
	vn := make([]int, n)
	vo[j], vn[j] = a, b
	vs := variants(1)
	return hist{kind: kind, name: name, n: n, k: k, j: j, a: a, b: b, oldC: content(n, vo), newC: content(n, vn),
		editName: vs[a].name + "->" + vs[b].name}
}

// ---------------------------------------------------------------- API level

func memDir(name, c string) (*migrate.MemDir, error) {
	d := &migrate.MemDir{}
	if err := d.WriteFile(name, []byte(c)); err != nil {
		return nil, err
	}
	sum, err := d.Checksum()
	if err != nil {
		return nil, err
	}
	if err := migrate.WriteSumFile(d, sum); err != nil {
		return nil, err
	}
	return d, nil
}

func faultsStopAt(k int) []bool {
	f := make([]bool, 2*k+2)
	f[2*k+1] = true
	return f
}

func rawHashes(st *execrun.Store) string {
	var parts []string
	for _, r := range st.Sorted() {
		if len(r.PartialHashes) == 0 {
			parts = append(parts, "-")
		} else {
			parts = append(parts, strings.Join(r.PartialHashes, ","))
		}
	}
	return strings.Join(parts, " ")
}

func execEvents(evs []string) []string {
	var x []string
	for _, e := range evs {
		if strings.HasPrefix(e, "x:") {
			x = append(x, e)
		}
	}
	return x
}

func runAPI(w *out.W, h hist) {
	st := execrun.NewStore()
	// last run: the content the stored hashes were computed from is restored (after a completed resume the
	// file is completely applied and is not looked at again; after a refusal the restored file resumes)
	contents := []string{h.oldC, h.newC, h.newC, h.oldC}
	faults := [][]bool{faultsStopAt(h.k), nil, nil, nil}
	base := 0
	if h.midC != "" {
		contents = []string{h.oldC, h.midC, h.newC, h.newC, h.midC}
		faults = [][]bool{faultsStopAt(h.k), faultsStopAt(h.k2 - h.k), nil, nil, nil}
		base = 1
	}
	toks := []string{fmt.Sprint(len(contents))}
	var obs []string
	var res []execrun.Result
	var sc [][]scanned
	for i := range contents {
		d, err := memDir(h.name, contents[i])
		if err != nil {
			w.Violation(h.id, "harness", err.Error())
			return
		}
		fs, err := scanFiles(d)
		if err != nil {
			w.Violation(h.id, "harness", err.Error())
			return
		}
		sc = append(sc, fs)
		fb := "-"
		if len(faults[i]) > 0 {
			var b strings.Builder
			for _, f := range faults[i] {
				if f {
					b.WriteByte('1')
				} else {
					b.WriteByte('0')
				}
			}
			fb = b.String()
		}
		toks = append(toks, fb)
		toks = append(toks, fileTokens(fs)...)
		r := execrun.Run{Order: "linear", Faults: faults[i]}.Execute(d, st)
		res = append(res, r)
		obs = append(obs, fmt.Sprintf("run%d outcome=%s events=[%s] table=[%s] raw=[%s] names=[%s]", i, r.Outcome,
			strings.Join(r.Events, " "), r.Table, rawHashes(st), showNames(fs)))
	}
	w.Case(h.id, strings.Join(toks, " "), obs)
	old, new := find(sc[base], h.name), find(sc[base+1], h.name)
	textChanged := !eq(old.texts, new.texts)
	w.Count("edit:" + h.editName)
	w.Count(fmt.Sprintf("k:%d", h.k))
	w.Count("run1:" + strings.SplitN(res[base+1].Outcome, ":", 2)[0])
	if textChanged {
		w.Count("class:text-changed")
	} else {
		w.Count("class:text-unchanged")
	}
	if h.midC != "" {
		w.Count("scenario:double-failure")
	}
	if h.k >= 1 {
		w.NonTrivial(fmt.Sprintf("%s|%d|%d|%d|%d|%d|%s", h.name, h.k, h.j, h.a, h.b, h.k2, h.midC))
	}
	desc := h.desc()
	for i, r := range res {
		if r.Outcome == "panic" {
			w.Violation(h.id, "panic", fmt.Sprintf("run %d panicked: %s", i, desc))
			return
		}
	}
	if len(old.texts) != h.n || len(new.texts) != h.n {
		w.Violation(h.id, "setup", fmt.Sprintf("the scanner returned %d / %d statements, generated %d: %s", len(old.texts), len(new.texts), h.n, desc))
		return
	}
	if res[0].Outcome != "stmterr" {
		w.Violation(h.id, "setup", "first run did not stop with a statement error: "+res[0].Outcome+": "+desc)
		return
	}
	k := h.k
	if h.midC != "" {
		k = h.k2
		wantRev := fmt.Sprintf("%s:%d:%d:", execrun.Hex(old.version), h.k2, h.n)
		if got := execEvents(res[1].Events); res[1].Outcome != "stmterr" || len(got) != h.k2-h.k+1 || !strings.HasPrefix(res[1].Table, wantRev) {
			w.Violation(h.id, "second-failure-not-recorded", fmt.Sprintf("second attempt: outcome=%s events=%v table=[%s], want stmterr after %d statements and revision %s…: %s", res[1].Outcome, got, res[1].Table, h.k2-h.k, wantRev, desc))
			return
		}
	}
	res = res[base:]
	changed := !eq(prefix(new.texts, k), prefix(old.texts, k))
	if changed {
		if !strings.HasPrefix(res[1].Outcome, "history:") {
			w.Violation(h.id, "not-refused", fmt.Sprintf("the scanned text of an applied statement changed but the run returned %s: %s", res[1].Outcome, desc))
			return
		}
		if want := fmt.Sprintf("history:%d", firstDiff(old.texts, new.texts, k)+1); res[1].Outcome != want {
			w.Violation(h.id, "wrong-attribution", fmt.Sprintf("refused with %s, the first edited applied statement is %s: %s", res[1].Outcome, want, desc))
		}
		if len(execEvents(res[1].Events)) != 0 {
			w.Violation(h.id, "executed-on-refuse", "statements executed although history changed: "+desc)
		}
		if res[1].Table != res[0].Table {
			w.Violation(h.id, "history-touched", fmt.Sprintf("revision table changed on refusal: %s -> %s: %s", res[0].Table, res[1].Table, desc))
		}
		if res[2].Outcome != res[1].Outcome || len(execEvents(res[2].Events)) != 0 || res[2].Table != res[0].Table {
			w.Violation(h.id, "not-refused", fmt.Sprintf("second run on the edited file: %s, table %s: %s", res[2].Outcome, res[2].Table, desc))
		}
		// the old content restored: the applied statements are what they were again
		if got := execEvents(res[3].Events); res[3].Outcome != "done" || len(got) != h.n-k {
			w.Violation(h.id, "not-resumed", fmt.Sprintf("old content restored after a refusal but the run returned %s and executed %v: %s", res[3].Outcome, got, desc))
		}
		return
	}
	if res[1].Outcome != "done" {
		w.Violation(h.id, "not-resumed", fmt.Sprintf("the scanned texts of the applied statements are unchanged but the run returned %s: %s", res[1].Outcome, desc))
		return
	}
	want := new.texts[k:]
	got := execEvents(res[1].Events)
	ok := len(got) == len(want)
	for i := 0; ok && i < len(want); i++ {
		ok = got[i] == "x:"+execrun.Hex(want[i])+":1"
	}
	if !ok {
		w.Violation(h.id, "wrong-tail", fmt.Sprintf("resumed run executed %v, want %q: %s", got, want, desc))
	}
	wantRev := fmt.Sprintf("%s:%d:%d:-:", execrun.Hex(new.version), len(new.texts), len(new.texts))
	if !strings.HasPrefix(res[1].Table, wantRev) {
		w.Violation(h.id, "rev-incomplete", fmt.Sprintf("after resume the revision is %q, want applied=total=%d: %s", res[1].Table, len(new.texts), desc))
	}
	if res[2].Outcome != "nopending" || len(execEvents(res[2].Events)) != 0 {
		w.Violation(h.id, "not-settled", fmt.Sprintf("run after a completed resume returned %s: %s", res[2].Outcome, desc))
	}
	// a completely applied file is not looked at again, whatever its content (C12_completed_file_edit_not_detected)
	if res[3].Outcome != "nopending" || len(execEvents(res[3].Events)) != 0 || res[3].Table != res[2].Table {
		w.Violation(h.id, "not-settled", fmt.Sprintf("completely applied file, old content restored: run returned %s, executed %v, table %s: %s", res[3].Outcome, execEvents(res[3].Events), res[3].Table, desc))
	}
}

func genAPI(tier string) []hist {
	var hs []hist
	nv := len(variants(1))
	n := 3
	c := 0
	for a := 0; a < nv; a++ {
		for b := 0; b < nv; b++ {
			if a == b {
				continue
			}
			for k := 0; k < n; k++ {
				for j := 0; j < n; j++ {
					if tier != "thorough" && k == 0 && j != 0 {
						continue
					}
					hs = append(hs, mkHist("ws", names[c%len(names)], n, k, j, a, b))
					c++
				}
			}
		}
	}
	// double failure: statement 1 applied, attempt 2 on the file with statement 2 re-spelled (m) applies it and
	// fails at statement 3; then statement j (applied by attempt 1, by attempt 2, or the tail) is re-spelled
	for m := 1; m < nv; m++ {
		for j := 0; j < n; j++ {
			for b := 0; b < nv; b++ {
				a := 0
				if j == 1 {
					a = m
				}
				if a == b || (tier != "thorough" && (m+j+b)%3 != 0) {
					continue
				}
				vs := variants(1)
				vo, vm, vn := make([]int, n), make([]int, n), make([]int, n)
				vm[1], vn[1] = m, m
				vn[j] = b
				hs = append(hs, hist{kind: "ws", name: names[c%len(names)], n: n, k: 1, k2: 2, j: j, a: a, b: b,
					oldC: content(n, vo), midC: content(n, vm), newC: content(n, vn), editName: vs[a].name + "->" + vs[b].name})
				c++
			}
		}
	}
	// every name x {edit of an applied statement, edit of the tail}
	for _, nm := range names {
		for _, j := range []int{0, 1} {
			hs = append(hs, mkHist("name", nm, 2, 1, j, 0, 1))
		}
	}
	return hs
}

// ---------------------------------------------------------------- CLI level

type rowObs struct {
	version        string
	desc           string
	applied, total int
	hashes         []string
	err            bool
	typ            string
	sig            string
}

func (r rowObs) show() string {
	e := "0"
	if r.err {
		e = "1"
	}
	return fmt.Sprintf("%s:%d:%d:%d:%s:%s", execrun.Hex(r.version), r.applied, r.total, len(r.hashes), e, r.typ)
}

type runObs struct {
	outcome string
	exit    int
	ids     []int    // journal rows added by the run
	notes   []string // their note column
	rows    []rowObs
	all     string // stdout + stderr
}

func (o runObs) table() string {
	p := make([]string, len(o.rows))
	for i, r := range o.rows {
		p[i] = r.show()
	}
	return strings.Join(p, " ")
}

func (o runObs) raw() string {
	p := make([]string, len(o.rows))
	for i, r := range o.rows {
		p[i] = "-"
		if len(r.hashes) > 0 {
			p[i] = strings.Join(r.hashes, ",")
		}
	}
	return strings.Join(p, " ")
}

func (o runObs) sigs() string {
	p := make([]string, len(o.rows))
	for i, r := range o.rows {
		p[i] = r.sig
	}
	return strings.Join(p, " || ")
}

var (
	reHistory = regexp.MustCompile(`history changed: statement (\d+) from file`)
	reH1      = regexp.MustCompile(`h1:[A-Za-z0-9+/=]+`)
)

func classify(r clirun.Result) string {
	all := r.Stderr + "\n" + r.Stdout
	switch {
	case strings.Contains(all, "panic:") || strings.Contains(all, "goroutine ") || r.Exit == 2:
		return "panic"
	case r.Exit == 0 && strings.Contains(all, "No migration files to execute"):
		return "nopending"
	case r.Exit == 0:
		return "done"
	}
	if m := reHistory.FindStringSubmatch(all); m != nil {
		return "history:" + m[1]
	}
	switch {
	case strings.Contains(all, "executing statement"):
		return "stmterr"
	case strings.Contains(all, "write revision"):
		return "writeerr"
	case strings.Contains(all, "read revision"), strings.Contains(all, "database is locked"):
		return "readerr"
	case strings.Contains(all, "checksum"):
		return "checksum"
	}
	s := strings.Join(strings.Fields(r.Stderr), " ")
	if len(s) > 160 {
		s = s[:160]
	}
	return fmt.Sprintf("other(exit=%d):%s", r.Exit, s)
}

func readJournal(db string) (ids []int, notes []string, err error) {
	rows, err := clirun.Query(db, "SELECT id, hex(note) FROM journal ORDER BY rowid")
	if err != nil {
		return nil, nil, err
	}
	for _, r := range rows {
		p := strings.SplitN(r, "|", 2)
		v, _ := strconv.Atoi(p[0])
		ids = append(ids, v)
		notes = append(notes, p[1])
	}
	return
}

func readRows(db string) ([]rowObs, error) {
	if !clirun.TableExists(db, "atlas_schema_revisions") {
		return nil, nil
	}
	rr, err := clirun.Query(db, "SELECT hex(version), hex(description), applied, total, hex(ifnull(partial_hashes,'')), hex(ifnull(error,'')), type, hex(ifnull(error_stmt,'')), hex(hash) FROM atlas_schema_revisions WHERE version <> '.atlas_cloud_identifier' ORDER BY version")
	if err != nil {
		return nil, err
	}
	unhex := func(s string) string {
		b := make([]byte, len(s)/2)
		for i := range b {
			v, _ := strconv.ParseUint(s[2*i:2*i+2], 16, 8)
			b[i] = byte(v)
		}
		return string(b)
	}
	var rows []rowObs
	for _, r := range rr {
		p := strings.Split(r, "|")
		if len(p) != 9 {
			return nil, fmt.Errorf("unexpected revision row %q", r)
		}
		a, _ := strconv.Atoi(p[2])
		t, _ := strconv.Atoi(p[3])
		rows = append(rows, rowObs{version: unhex(p[0]), desc: unhex(p[1]), applied: a, total: t,
			hashes: reH1.FindAllString(unhex(p[4]), -1), err: p[5] != "", typ: p[6], sig: r})
	}
	return rows, nil
}

var leanEnv = []string{"GOMAXPROCS=1", "GOGC=off"}

func runCLI(tmp string, args ...string) clirun.Result {
	return clirun.Run(tmp, leanEnv, args...)
}

func apply(tmp, db, mdir, mode, format string) (runObs, error) {
	before, _, err := readJournal(db)
	if err != nil {
		return runObs{}, err
	}
	args := []string{"migrate", "apply", "--dir", "file://" + mdir, "--url", "sqlite://" + db, "--tx-mode", mode, "--allow-dirty"}
	if format == "json" {
		args = append(args, "--format", "{{ json . }}")
	}
	r := runCLI(tmp, args...)
	o := runObs{outcome: classify(r), exit: r.Exit, all: r.Stderr + "\n" + r.Stdout}
	ids, notes, err := readJournal(db)
	if err != nil {
		return o, err
	}
	if len(ids) < len(before) {
		return o, fmt.Errorf("journal shrank")
	}
	o.ids, o.notes = ids[len(before):], notes[len(before):]
	o.rows, err = readRows(db)
	return o, err
}

type result struct {
	h      hist
	runs   []runObs
	sc     [][]scanned // the directory as scanned at each run
	modes  []string
	status string
	err    error
	skip   string
}

func fileStream(nOK int, fails bool) string {
	s := "00" + strings.Repeat("00", nOK)
	if fails {
		return s + "1"
	}
	return s + "0"
}

func scratch() string {
	if st, err := os.Stat("/dev/shm"); err == nil && st.IsDir() {
		return "/dev/shm"
	}
	return ""
}

func runHist(h hist) (res result) {
	res.h = h
	tmp, err := os.MkdirTemp(scratch(), "vhs")
	if err != nil {
		res.err = err
		return
	}
	defer os.RemoveAll(tmp)
	db := filepath.Join(tmp, "t.db")
	mdir := filepath.Join(tmp, "m")
	fail := func(e error) result { res.err = e; return res }
	scan := func() bool {
		d, err := migrate.NewLocalDir(mdir)
		if err != nil {
			res.err = err
			return false
		}
		fs, err := scanFiles(d)
		if err != nil {
			res.err = err
			return false
		}
		res.sc = append(res.sc, fs)
		return true
	}
	if err := clirun.Exec(db, "CREATE TABLE journal (id INTEGER, note TEXT)"); err != nil {
		return fail(err)
	}
	if err := clirun.WriteDir(mdir, map[string]string{h.name: h.oldC}); err != nil {
		return fail(err)
	}
	if err := clirun.Exec(db, fmt.Sprintf("CREATE TRIGGER stop BEFORE INSERT ON journal WHEN NEW.id = %d BEGIN SELECT RAISE(ABORT, 'stop'); END", h.k+1)); err != nil {
		return fail(err)
	}
	o, err := apply(tmp, db, mdir, "none", "")
	if err != nil {
		return fail(err)
	}
	if !scan() {
		return
	}
	res.runs = append(res.runs, o)
	res.modes = append(res.modes, "none")
	if err := clirun.Exec(db, "DROP TRIGGER stop"); err != nil {
		return fail(err)
	}
	if err := os.WriteFile(filepath.Join(mdir, h.name), []byte(h.newC), 0o644); err != nil {
		return fail(err)
	}
	if hr := runCLI(tmp, "migrate", "hash", "--dir", "file://"+mdir); hr.Exit != 0 {
		return fail(fmt.Errorf("migrate hash failed: %s", hr.Stderr))
	}
	for i, m := range h.modes {
		o, err := apply(tmp, db, mdir, m, h.formats[i])
		if err != nil {
			return fail(err)
		}
		if !scan() {
			return
		}
		res.runs = append(res.runs, o)
		res.modes = append(res.modes, m)
	}
	sr := runCLI(tmp, "migrate", "status", "--dir", "file://"+mdir, "--url", "sqlite://"+db)
	all := sr.Stdout + sr.Stderr
	switch {
	case strings.Contains(all, "panic:") || strings.Contains(all, "goroutine "):
		res.status = "panic"
	case sr.Exit == 0 && strings.Contains(all, "Migration Status: OK"):
		res.status = "OK"
	case sr.Exit == 0 && strings.Contains(all, "Migration Status: PENDING"):
		res.status = "PENDING"
	default:
		res.status = "err"
	}
	return
}

// the model has tx-modes none and file; with one pending file `all` is `file` (one transaction
// around the only file).
func modelMode(m string) string {
	if m == "all" {
		return "file"
	}
	return m
}

func (r result) caseLine() string {
	toks := []string{fmt.Sprint(len(r.runs))}
	for i := range r.runs {
		f := "-"
		if i == 0 {
			f = "00" + fileStream(r.h.k, true)
		}
		toks = append(toks, modelMode(r.modes[i]), "linear", f)
		toks = append(toks, fileTokens(r.sc[i])...)
	}
	return strings.Join(toks, " ")
}

func textsByID(fs scanned) map[int]string {
	m := map[int]string{}
	for _, t := range fs.texts {
		if x := reID.FindStringSubmatch(t); x != nil {
			id, _ := strconv.Atoi(x[1])
			m[id] = t
		}
	}
	return m
}

func (r result) obsLines() []string {
	var ls []string
	for i, o := range r.runs {
		by := textsByID(find(r.sc[i], r.h.name))
		js := make([]string, len(o.ids))
		for j, id := range o.ids {
			js[j] = execrun.Hex(by[id])
		}
		ls = append(ls, fmt.Sprintf("run%d outcome=%s journal=[%s] table=[%s] raw=[%s] names=[%s]", i, o.outcome,
			strings.Join(js, ","), o.table(), o.raw(), showNames(r.sc[i])))
	}
	return append(ls, "status="+r.status)
}

func hexUpper(s string) string { return strings.ToUpper(strings.ReplaceAll(execrun.Hex(s), "-", "")) }

func oracleCLI(w *out.W, r result) {
	h := r.h
	desc := h.desc()
	for i, o := range r.runs {
		if o.outcome == "panic" {
			w.Violation(h.id, "panic", fmt.Sprintf("run %d (tx-mode %s) crashed (exit %d): %s: %s", i, r.modes[i], o.exit, firstLines(o.all), desc))
			return
		}
	}
	if r.status == "panic" {
		w.Violation(h.id, "panic", "migrate status crashed: "+desc)
		return
	}
	old, new := find(r.sc[0], h.name), find(r.sc[1], h.name)
	if len(old.texts) != h.n || len(new.texts) != h.n {
		w.Violation(h.id, "setup", fmt.Sprintf("the scanner returned %d / %d statements, generated %d: %s", len(old.texts), len(new.texts), h.n, desc))
		return
	}
	r0 := r.runs[0]
	row0, ok := rowOf(r0, old.version)
	if r0.outcome != "stmterr" || !ok || row0.applied != h.k || row0.total != h.n || len(row0.hashes) != h.k || !row0.err {
		w.Violation(h.id, "first-run-not-recorded", fmt.Sprintf("first run: outcome=%s table=[%s], want stmterr and applied=%d total=%d with %d hashes: %s: %s", r0.outcome, r0.table(), h.k, h.n, h.k, firstLines(r0.all), desc))
		return
	}
	if row0.desc != old.desc {
		w.Violation(h.id, "wrong-description", fmt.Sprintf("revision description %q, File.Desc() = %q: %s", row0.desc, old.desc, desc))
	}
	k := row0.applied
	changed := !eq(prefix(new.texts, k), prefix(old.texts, k))
	lits := map[int]string{}
	for i := 0; i < h.n; i++ {
		v := 0
		if i == h.j {
			v = h.b
		}
		lits[i+1] = hexUpper(variants(i + 1)[v].lit)
	}
	if changed {
		want := fmt.Sprintf("history:%d", firstDiff(old.texts, new.texts, k)+1)
		for i := 1; i < len(r.runs); i++ {
			o := r.runs[i]
			what := fmt.Sprintf("run %d (tx-mode %s, format %q)", i, r.modes[i], h.formats[i-1])
			if !strings.HasPrefix(o.outcome, "history:") || o.exit == 0 {
				w.Violation(h.id, "not-refused", fmt.Sprintf("%s: the scanned text of an applied statement changed but the outcome is %s (exit %d): %s: %s", what, o.outcome, o.exit, firstLines(o.all), desc))
				return
			}
			if o.outcome != want {
				w.Violation(h.id, "wrong-attribution", fmt.Sprintf("%s: refused with %s, the first edited applied statement is %s: %s", what, o.outcome, want, desc))
			}
			// every report of the error -- the log (text or JSON) and the command's own "Error:" line -- names
			// the file, verbatim (%q; JSON-escaped inside the JSON log)
			plain := fmt.Sprintf("from file %q changed", h.name)
			js, _ := json.Marshal(plain)
			good := strings.Count(o.all, plain)
			if esc := string(js[1 : len(js)-1]); esc != plain {
				good += strings.Count(o.all, esc)
			}
			if total := strings.Count(o.all, "history changed: statement "); good == 0 || good != total {
				w.Violation(h.id, "wrong-file", fmt.Sprintf("%s: %d report(s) of the error, %d name the file %q verbatim: %s: %s", what, total, good, h.name, firstLines(o.all), desc))
			}
			if len(o.ids) != 0 {
				w.Violation(h.id, "executed-on-refuse", fmt.Sprintf("%s: statements %v executed although history changed: %s", what, o.ids, desc))
			}
			if o.sigs() != r0.sigs() {
				w.Violation(h.id, "history-touched", fmt.Sprintf("%s: revision rows changed on refusal: %s -> %s: %s", what, r0.sigs(), o.sigs(), desc))
			}
		}
		if r.status == "OK" {
			w.Violation(h.id, "status-ok-after-refusal", "migrate status reports OK after a refused resume: "+desc)
		}
		return
	}
	// the applied statements are what they were: resume with the new tail
	o1 := r.runs[1]
	if o1.outcome != "done" {
		w.Violation(h.id, "not-resumed", fmt.Sprintf("the scanned texts of the applied statements are unchanged but run 1 (tx-mode %s) returned %s: %s: %s", r.modes[1], o1.outcome, firstLines(o1.all), desc))
		return
	}
	okTail := len(o1.ids) == h.n-k
	for i := 0; okTail && i < len(o1.ids); i++ {
		okTail = o1.ids[i] == k+i+1
	}
	if !okTail {
		w.Violation(h.id, "wrong-tail", fmt.Sprintf("resumed run executed statements %v, want %d..%d: %s", o1.ids, k+1, h.n, desc))
	}
	for i, id := range o1.ids {
		if o1.notes[i] != lits[id] {
			w.Violation(h.id, "stale-statement-executed", fmt.Sprintf("statement %d wrote note %s, the file says %s: %s", id, o1.notes[i], lits[id], desc))
		}
	}
	if row, ok := rowOf(o1, new.version); !ok || row.applied != h.n || row.total != h.n || len(row.hashes) != 0 || row.err {
		w.Violation(h.id, "rev-incomplete", fmt.Sprintf("after resume the table is [%s], want applied=total=%d, no partial hashes, no error: %s", o1.table(), h.n, desc))
	}
	for i := 2; i < len(r.runs); i++ {
		o := r.runs[i]
		if o.outcome != "nopending" || len(o.ids) != 0 || o.sigs() != o1.sigs() {
			w.Violation(h.id, "not-settled", fmt.Sprintf("run %d after a completed resume: %s, executed %v: %s", i, o.outcome, o.ids, desc))
		}
	}
	if r.status != "OK" {
		w.Violation(h.id, "status-not-ok", "migrate status after a completed resume: "+r.status+": "+desc)
	}
}

func rowOf(o runObs, v string) (rowObs, bool) {
	for _, r := range o.rows {
		if r.version == v {
			return r, true
		}
	}
	return rowObs{}, false
}

func firstLines(s string) string {
	s = strings.Join(strings.Fields(s), " ")
	if len(s) > 300 {
		s = s[:300]
	}
	return s
}

func genCLI(tier string) []hist {
	var hs []hist
	nv := len(variants(1))
	n, k := 3, 2
	c := 0
	add := func(a, b int, both bool) {
		js := []int{c % 2, 2} // an applied statement, the tail
		if tier == "thorough" {
			js = []int{0, 1, 2}
		} else if !both {
			js = []int{c % 2}
		}
		for _, j := range js {
			h := mkHist("ws", "1_a.sql", n, k, j, a, b)
			m := []string{"none", "file"}[c%2]
			h.modes, h.formats = []string{m}, []string{""}
			if tier == "thorough" {
				h.modes, h.formats = []string{m, m}, []string{"", ""}
			}
			hs = append(hs, h)
			c++
		}
	}
	for b := 1; b < nv; b++ {
		add(0, b, true)
		add(b, 0, false)
	}
	add(2, 1, true) // a line break inside a literal becoming a blank
	add(8, 6, true) // CRLF -> LF inside a multi-line statement
	add(7, 6, true) // tab -> blanks
	// names: the refused file has every shape; every tx-mode x log format on the same database
	for i, nm := range names {
		h := mkHist("name", nm, 2, 1, 0, 0, 1)
		h.modes = []string{"none", "none", "file", "file", "all", "all"}
		h.formats = []string{"", "json", "", "json", "", "json"}
		hs = append(hs, h)
		if tier != "thorough" && i%3 != 1 {
			continue
		}
		t := mkHist("name", nm, 2, 1, 1, 0, 1) // tail edit: resumes
		t.modes, t.formats = []string{"none", "none"}, []string{"json", ""}
		hs = append(hs, t)
	}
	return hs
}

func main() {
	mode := flag.String("mode", "api", "api|cli")
	tier := flag.String("tier", "quick", "quick|thorough")
	outDir := flag.String("out", "", "output directory")
	flag.Parse()
	if *outDir == "" {
		fmt.Fprintln(os.Stderr, "missing -out")
		os.Exit(2)
	}
	w := out.New(*outDir)
	defer w.Close()
	w.Exhaust = true
	switch *mode {
	case "api":
		hs := genAPI(*tier)
		w.Rule = "exhaustive: a file of 3 statements, first run fails at statement k+1 (k=0..2), statement j (every j; quick: k=0 only j=0) rewritten from variant a to variant b for every ordered pair of the 17 spellings (13 change Stmt.Text, 4 change only the file), file name cycling through 18 name shapes; + double failure (statement 1 applied, statement 2 re-spelled while in the tail and applied by the second attempt, which fails at statement 3; then statement j re-spelled; quick: a third of the (m,j,b) triples) + every name shape x {applied, tail} edit; history = ExecuteN (fails), edit + re-hash, ExecuteN, ExecuteN, old content restored + re-hash, ExecuteN. Non-trivial = k>=1 (the hash comparison loop runs); distinct by (name,k,j,a,b)"
		for i := range hs {
			hs[i].id = fmt.Sprintf("wsapi-%d", i+1)
			runAPI(w, hs[i])
		}
	case "cli":
		hs := genCLI(*tier)
		w.Rule = "a file of 3 statements, 2 applied, statement j rewritten base->variant (one applied statement and the tail) and variant->base (one of them; thorough: every j) for the 16 other spellings (+3 pairs named in the task), tx-mode none/file alternating: apply (fails), edit + `migrate hash`, apply (thorough: twice), status; + 18 file-name shapes x edit of the applied statement: six applies = tx-mode none/file/all x default/JSON log format on the same database, status; + tail edit for 6 of the names (thorough: all): apply (JSON), apply, status. Non-trivial = every history (k>=1); distinct by (name,j,a,b,modes)"
		for i := range hs {
			hs[i].id = fmt.Sprintf("wscli-%d", i+1)
		}
		results := make([]result, len(hs))
		jobs := make([]func(), len(hs))
		for i := range hs {
			i := i
			jobs[i] = func() { results[i] = runHist(hs[i]) }
		}
		nw := 2 * runtime.NumCPU()
		if nw > 32 {
			nw = 32
		}
		clirun.Parallel(nw, jobs)
		for _, r := range results {
			h := r.h
			if r.err != nil {
				w.Violation(h.id, "harness", "harness error: "+r.err.Error()+": "+h.desc())
				continue
			}
			w.Case(h.id, r.caseLine(), r.obsLines())
			w.Count("kind:" + h.kind)
			w.Count("edit:" + h.editName)
			w.Count("resuming-run:" + strings.SplitN(r.runs[1].outcome, ":", 2)[0])
			w.NonTrivial(fmt.Sprintf("%s|%d|%d|%d|%v", h.name, h.j, h.a, h.b, h.modes))
			oracleCLI(w, r)
		}
	default:
		fmt.Fprintln(os.Stderr, "unknown mode")
		os.Exit(2)
	}
}
