// The canonical skeleton of a *migrate.Plan produced by the real planner: one line per change with
// the statement kind and objects read back from the SQL text, the skeleton of its reverse statements
// and the kind of its comment (same text as ocaml/sqlite/driver.ml prints for the model's plan).
package main

import (
	"fmt"
	"regexp"
	"strings"

	"ariga.io/atlas/sql/migrate"
	"ariga.io/atlas/sql/schema"
	"ariga.io/atlas/sql/sqlite"
)

var (
	reCT  = regexp.MustCompile("^CREATE TABLE `([^`]*)` \\(")
	reDT  = regexp.MustCompile("^DROP TABLE `([^`]*)`$")
	reRT  = regexp.MustCompile("^ALTER TABLE `([^`]*)` RENAME TO `([^`]*)`$")
	reAC  = regexp.MustCompile("^ALTER TABLE `([^`]*)` ADD COLUMN `([^`]*)` ")
	reDC  = regexp.MustCompile("^ALTER TABLE `([^`]*)` DROP COLUMN `([^`]*)`$")
	reCI  = regexp.MustCompile("^CREATE (UNIQUE )?INDEX `((?:[^`]|``)*)` ON `([^`]*)` \\(")
	reDI  = regexp.MustCompile("^DROP INDEX `((?:[^`]|``)*)`$")
	reCP  = regexp.MustCompile("^INSERT INTO `([^`]*)` \\((.*?)\\) SELECT (.*) FROM `([^`]*)`$")
	reIfN = regexp.MustCompile("^IFNULL\\(`([^`]*)`, (.*)\\) AS `([^`]*)`$")
)

func unq(s string) string { return strings.Trim(strings.TrimSpace(s), "`") }

// splitTop splits a comma separated list at depth 0 (outside parentheses and quotes).
func splitTop(s string) []string {
	var out []string
	d, start := 0, 0
	for i := 0; i < len(s); i++ {
		switch s[i] {
		case '(':
			d++
		case ')':
			d--
		case '\'':
			j := strings.IndexByte(s[i+1:], '\'')
			if j >= 0 {
				i += j + 1
			}
		case ',':
			if d == 0 {
				out = append(out, strings.TrimSpace(s[start:i]))
				start = i + 1
			}
		}
	}
	return append(out, strings.TrimSpace(s[start:]))
}

func stmtSkel(cmd string) string {
	switch {
	case reCT.MatchString(cmd):
		return "CT(" + reCT.FindStringSubmatch(cmd)[1] + ")"
	case reDT.MatchString(cmd):
		return "DT(" + reDT.FindStringSubmatch(cmd)[1] + ")"
	case reRT.MatchString(cmd):
		m := reRT.FindStringSubmatch(cmd)
		return "RT(" + m[1] + ">" + m[2] + ")"
	case reAC.MatchString(cmd):
		m := reAC.FindStringSubmatch(cmd)
		return "AC(" + m[1] + "." + m[2] + ")"
	case reDC.MatchString(cmd):
		m := reDC.FindStringSubmatch(cmd)
		return "DC(" + m[1] + "." + m[2] + ")"
	case reCI.MatchString(cmd):
		m := reCI.FindStringSubmatch(cmd)
		return "CI(" + m[3] + "." + strings.ReplaceAll(m[2], "``", "`") + ":" + b01(m[1] != "") + ")"
	case reDI.MatchString(cmd):
		return "DI(" + strings.ReplaceAll(reDI.FindStringSubmatch(cmd)[1], "``", "`") + ")"
	case reCP.MatchString(cmd):
		m := reCP.FindStringSubmatch(cmd)
		var tc, fe []string
		for _, c := range splitTop(m[2]) {
			tc = append(tc, unq(c))
		}
		for _, e := range splitTop(m[3]) {
			if x := reIfN.FindStringSubmatch(e); x != nil {
				fe = append(fe, "IFNULL("+x[1]+","+hx(x[2])+")")
			} else {
				fe = append(fe, unq(e))
			}
		}
		return "CP(" + m[1] + "<" + m[4] + ":" + strings.Join(tc, ",") + "|" + strings.Join(fe, ",") + ")"
	case cmd == "PRAGMA foreign_keys = off":
		return "FK(0)"
	case cmd == "PRAGMA foreign_keys = on":
		return "FK(1)"
	}
	return "?" + hx(cmd)
}

func commentKind(c string) string {
	switch {
	case strings.HasPrefix(c, "create index "):
		return "create-index"
	case strings.HasPrefix(c, "drop index "):
		return "drop-index"
	case strings.HasPrefix(c, "create ") && strings.HasSuffix(c, " table"):
		return "create-table"
	case strings.HasPrefix(c, "drop ") && strings.HasSuffix(c, " table after copying rows"):
		return "drop-after-copy"
	case strings.HasPrefix(c, "drop ") && strings.HasSuffix(c, " table without copying rows (no columns)"):
		return "drop-without-copy"
	case strings.HasPrefix(c, "drop ") && strings.HasSuffix(c, " table"):
		return "drop-table"
	case strings.HasPrefix(c, "rename temporary table "):
		return "rename-temp"
	case strings.HasPrefix(c, "add column "):
		return "add-column"
	case strings.HasPrefix(c, "copy rows from old table "):
		return "copy-rows"
	case c == "disable the enforcement of foreign-keys constraints":
		return "fk-off"
	case c == "enable back the enforcement of foreign-keys constraints":
		return "fk-on"
	}
	return "?" + c
}

// createBody: what the planner was asked to create (read from Change.Source of CREATE TABLE).
func createBody(t *schema.Table) string {
	var cols, fks, ai []string
	for _, c := range t.Columns {
		cols = append(cols, c.Name)
		if hasAttr(c.Attrs, &sqlite.AutoIncrement{}) {
			ai = append(ai, c.Name)
		}
	}
	pk := "~"
	if t.PrimaryKey != nil {
		var ps []string
		for _, p := range t.PrimaryKey.Parts {
			if p.C != nil {
				ps = append(ps, p.C.Name)
			} else {
				ps = append(ps, "?")
			}
		}
		pk = strings.Join(ps, ",")
	}
	for _, f := range t.ForeignKeys {
		fks = append(fks, f.Symbol)
	}
	nk := 0
	for _, a := range t.Attrs {
		if _, ok := a.(*schema.Check); ok {
			nk++
		}
	}
	return fmt.Sprintf("cols=%s pk=%s fks=%s checks=%d wr=%s strict=%s ai=%s", strings.Join(cols, ","), pk, strings.Join(fks, ","), nk,
		b01(hasAttr(t.Attrs, &sqlite.WithoutRowID{})), b01(hasAttr(t.Attrs, &sqlite.Strict{})), strings.Join(ai, ","))
}

// planObs returns the observation lines of a plan ("P ..." then one "C<i> ..." per change).
func planObs(p *migrate.Plan, err error) []string {
	if err != nil {
		return []string{"P err"}
	}
	out := []string{fmt.Sprintf("P rev=%s tx=%s n=%d", b01(p.Reversible), b01(p.Transactional), len(p.Changes))}
	for i, c := range p.Changes {
		rs, rerr := c.ReverseStmts()
		var rsk []string
		if rerr != nil {
			rsk = []string{"?err"}
		}
		for _, r := range rs {
			rsk = append(rsk, stmtSkel(r))
		}
		line := fmt.Sprintf("C%d %s ; R=%s ; K=%s", i, stmtSkel(c.Cmd), strings.Join(rsk, ","), commentKind(c.Comment))
		if a, ok := c.Source.(*schema.AddTable); ok && strings.HasPrefix(c.Cmd, "CREATE TABLE") {
			line += " ; " + createBody(a.T)
		}
		out = append(out, line)
	}
	return out
}
