// Canonical text of a change list (same text as ocaml/diff/driver.ml prints) and the
// serialisation of a schema.* graph into the case-file tokens the model driver reads.
package main

import (
	"encoding/hex"
	"fmt"
	"reflect"
	"sort"
	"strconv"
	"strings"

	"ariga.io/atlas/sql/mysql"
	"ariga.io/atlas/sql/postgres"
	"ariga.io/atlas/sql/schema"
	"ariga.io/atlas/sql/sqlite"
)

func hx(s string) string {
	if s == "" {
		return "-"
	}
	return hex.EncodeToString([]byte(s))
}

// attribute identifiers of AddAttr/DropAttr/ModifyAttr
func attrID(a schema.Attr) int {
	switch a.(type) {
	case *sqlite.WithoutRowID:
		return 1
	case *sqlite.Strict:
		return 2
	case *schema.Comment:
		return 3
	case *schema.Charset:
		return 4
	case *schema.Collation:
		return 5
	case *mysql.Engine:
		return 6
	case *mysql.AutoIncrement:
		return 7
	case *mysql.SystemVersioned:
		return 8
	}
	return 99
}

func showChange(c schema.Change) string {
	switch c := c.(type) {
	case *schema.AddColumn:
		return "+C(" + c.C.Name + ")"
	case *schema.DropColumn:
		return "-C(" + c.C.Name + ")"
	case *schema.ModifyColumn:
		return fmt.Sprintf("~C(%s:%d)", c.From.Name, uint(c.Change))
	case *schema.AddIndex:
		return "+I(" + c.I.Name + ")"
	case *schema.DropIndex:
		return "-I(" + c.I.Name + ")"
	case *schema.ModifyIndex:
		return fmt.Sprintf("~I(%s:%d)", c.From.Name, uint(c.Change))
	case *schema.AddPrimaryKey:
		return "+PK"
	case *schema.DropPrimaryKey:
		return "-PK"
	case *schema.ModifyPrimaryKey:
		return fmt.Sprintf("~PK(%d)", uint(c.Change))
	case *schema.RenameConstraint:
		return "RC(" + constraintName(c.From) + ">" + constraintName(c.To) + ")"
	case *schema.AddForeignKey:
		return "+FK(" + c.F.Symbol + ")"
	case *schema.DropForeignKey:
		return "-FK(" + c.F.Symbol + ")"
	case *schema.ModifyForeignKey:
		return fmt.Sprintf("~FK(%s:%d)", c.From.Symbol, uint(c.Change))
	case *schema.AddCheck:
		return "+CK(" + c.C.Name + ":" + hx(c.C.Expr) + ")"
	case *schema.DropCheck:
		return "-CK(" + c.C.Name + ":" + hx(c.C.Expr) + ")"
	case *schema.ModifyCheck:
		return "~CK(" + c.From.Name + ":" + hx(c.From.Expr) + ">" + c.To.Name + ":" + hx(c.To.Expr) + ")"
	case *schema.AddAttr:
		return fmt.Sprintf("+A(%d)", attrID(c.A))
	case *schema.DropAttr:
		return fmt.Sprintf("-A(%d)", attrID(c.A))
	case *schema.ModifyAttr:
		return fmt.Sprintf("~A(%d)", attrID(c.From))
	}
	return "?" + reflect.TypeOf(c).String()
}

func constraintName(c any) string {
	switch c := c.(type) {
	case *schema.Index:
		return c.Name
	case *schema.ForeignKey:
		return c.Symbol
	case *schema.Check:
		return c.Name
	}
	return "?"
}

func showSubs(cs []schema.Change) string {
	ss := make([]string, len(cs))
	for i, c := range cs {
		ss[i] = showChange(c)
	}
	return "{" + strings.Join(ss, ",") + "}"
}

func showSChange(c schema.Change) string {
	switch c := c.(type) {
	case *schema.AddTable:
		return "+T(" + c.T.Name + ")"
	case *schema.DropTable:
		return "-T(" + c.T.Name + ")"
	case *schema.ModifyTable:
		return "~T(" + c.T.Name + ")" + showSubs(c.Changes)
	}
	return "?" + reflect.TypeOf(c).String()
}

// showSchemaChanges prints the result of SchemaDiff in the order Go returned it.
func showSchemaChanges(cs []schema.Change, err error) string {
	if err != nil {
		return "err"
	}
	if len(cs) == 0 {
		return "[]"
	}
	ss := make([]string, len(cs))
	for i, c := range cs {
		ss[i] = showSChange(c)
	}
	return strings.Join(ss, ";")
}

// flat turns a SchemaDiff result into the sorted list of "table/change" items the
// oracle compares (the order of changes is not part of the property).
func flat(cs []schema.Change) []string {
	var out []string
	for _, c := range cs {
		if m, ok := c.(*schema.ModifyTable); ok {
			if len(m.Changes) == 0 {
				out = append(out, m.T.Name+"/<empty ModifyTable>")
			}
			for _, s := range m.Changes {
				out = append(out, m.T.Name+"/"+showChange(s))
			}
			continue
		}
		out = append(out, showSChange(c))
	}
	sort.Strings(out)
	return out
}

// ------------------------------------------------------------ case tokens (sqlite model)

var sqliteClass = map[reflect.Type]int{
	reflect.TypeOf(&sqlite.UserDefinedType{}): 1,
	reflect.TypeOf(&schema.IntegerType{}):     2,
	reflect.TypeOf(&schema.StringType{}):      3,
	reflect.TypeOf(&schema.FloatType{}):       4,
	reflect.TypeOf(&schema.BinaryType{}):      5,
	reflect.TypeOf(&schema.DecimalType{}):     6,
	reflect.TypeOf(&schema.BoolType{}):        7,
	reflect.TypeOf(&schema.TimeType{}):        8,
	reflect.TypeOf(&schema.JSONType{}):        9,
	reflect.TypeOf(&schema.UUIDType{}):        10,
	reflect.TypeOf(&schema.EnumType{}):        12,
	reflect.TypeOf(&schema.SpatialType{}):     13,
	reflect.TypeOf(&schema.UnsupportedType{}): 14,
}

func b01(b bool) string {
	if b {
		return "1"
	}
	return "0"
}

func optTok(ok bool, s string) string {
	if !ok {
		return "~"
	}
	return hx(s)
}

// tokDialect selects the class numbering and the encoding of the dialect attributes
// (see coq/theories/Diff/DiffDialects.v).
var tokDialect = "sqlite"

const us = "\x1f"

func tokCol(t *schema.Table, c *schema.Column, w *[]string) {
	cls, T := 0, ""
	if c.Type != nil && c.Type.Type != nil {
		switch tokDialect {
		case "sqlite":
			k, ok := sqliteClass[reflect.TypeOf(c.Type.Type)]
			if !ok {
				panic(fmt.Sprintf("no class for %T", c.Type.Type))
			}
			cls = k
			if u, ok := c.Type.Type.(*sqlite.UserDefinedType); ok {
				T = u.T
			} else if f, err := sqlite.FormatType(c.Type.Type); err == nil {
				T = f
			}
		case "mysql":
			cls, T = mysqlClassID(c.Type.Type)
		case "postgres":
			cls, T = pgClassID(c.Type.Type)
		}
	}
	switch tokDialect {
	case "mysql":
		var cs, tcs schema.Charset
		var co, tco schema.Collation
		hasAttr(c.Attrs, &cs)
		hasAttr(c.Attrs, &co)
		hasAttr(t.Attrs, &tcs)
		hasAttr(t.Attrs, &tco)
		T = strings.Join([]string{T, cs.V, co.V, tcs.V, tco.V}, us)
	case "postgres":
		id := &postgres.Identity{}
		f := []string{T, "", "", "", ""}
		if hasAttr(c.Attrs, id) {
			f[1], f[2], f[3], f[4] = "1", id.Generation, "1", "1"
			if id.Sequence != nil {
				f[3], f[4] = strconv.FormatInt(id.Sequence.Start, 10), strconv.FormatInt(id.Sequence.Increment, 10)
			}
		}
		T = strings.Join(f, us)
	}
	d := "~"
	switch x := c.Default.(type) {
	case *schema.Literal:
		d = "L:" + hx(x.V)
	case *schema.RawExpr:
		d = "R:" + hx(x.X)
	}
	g := "~"
	var gx schema.GeneratedExpr
	if hasAttr(c.Attrs, &gx) {
		g = hx(gx.Expr) + ":" + hx(gx.Type)
	}
	var cm schema.Comment
	hasC := hasAttr(c.Attrs, &cm)
	*w = append(*w, hx(c.Name), strconv.Itoa(cls), hx(T), b01(c.Type.Null), d, g, optTok(hasC, cm.Text))
}

// class numbers shared with DiffDialects.v
var genericClass = map[reflect.Type]int{
	reflect.TypeOf(&schema.IntegerType{}):     2,
	reflect.TypeOf(&schema.StringType{}):      3,
	reflect.TypeOf(&schema.FloatType{}):       4,
	reflect.TypeOf(&schema.BinaryType{}):      5,
	reflect.TypeOf(&schema.DecimalType{}):     6,
	reflect.TypeOf(&schema.BoolType{}):        7,
	reflect.TypeOf(&schema.TimeType{}):        8,
	reflect.TypeOf(&schema.JSONType{}):        9,
	reflect.TypeOf(&schema.UUIDType{}):        10,
	reflect.TypeOf(&schema.EnumType{}):        12,
	reflect.TypeOf(&schema.SpatialType{}):     13,
	reflect.TypeOf(&schema.UnsupportedType{}): 14,
}

func mysqlClassID(t schema.Type) (int, string) {
	switch t := t.(type) {
	case *schema.IntegerType:
		id := t.T
		if t.Unsigned {
			id += " unsigned"
		}
		return 2, id
	case *schema.EnumType:
		return 12, strings.Join(t.Values, "\x00")
	case *mysql.SetType:
		return 16, strings.Join(t.Values, "\x00")
	case *mysql.BitType:
		f, _ := mysql.FormatType(t)
		return 15, f
	case *mysql.NetworkType:
		f, _ := mysql.FormatType(t)
		return 17, f
	}
	k, ok := genericClass[reflect.TypeOf(t)]
	if !ok {
		panic(fmt.Sprintf("mysql: no class for %T", t))
	}
	f, err := mysql.FormatType(t)
	if err != nil {
		panic(err)
	}
	return k, f
}

func pgClassID(t schema.Type) (int, string) {
	switch t := t.(type) {
	case *postgres.UserDefinedType:
		return 1, t.T
	case *schema.EnumType:
		return 12, t.T
	case *postgres.ArrayType:
		if t.Type == nil {
			return 18, ""
		}
		f, err := postgres.FormatType(t.Type)
		if err != nil {
			panic(err)
		}
		return 18, f
	case *postgres.CompositeType:
		return 20, t.T
	case *postgres.DomainType:
		return 21, t.T
	case *postgres.CurrencyType:
		return 22, t.T
	case *postgres.XMLType:
		return 23, t.T
	}
	k, ok := genericClass[reflect.TypeOf(t)]
	if !ok {
		switch t.(type) {
		case *postgres.BitType:
			k = 15
		case *postgres.NetworkType:
			k = 17
		case *postgres.SerialType:
			k = 19
		case *postgres.IntervalType:
			k = 24
		case *postgres.OIDType:
			k = 25
		case *postgres.RangeType:
			k = 26
		case *postgres.PseudoType:
			k = 27
		case *postgres.TextSearchType:
			k = 28
		default:
			panic(fmt.Sprintf("postgres: no class for %T", t))
		}
	}
	f, err := postgres.FormatType(t)
	if err != nil {
		panic(err)
	}
	return k, f
}

// hasAttr is sqlx.Has for the attribute types used here (first attribute of the type).
func hasAttr(attrs []schema.Attr, target any) bool {
	tv := reflect.ValueOf(target)
	for _, a := range attrs {
		if a == nil {
			continue
		}
		if av := reflect.ValueOf(a); av.Type() == tv.Type() {
			tv.Elem().Set(av.Elem())
			return true
		}
	}
	return false
}

func tokIdx(i *schema.Index, w *[]string) {
	*w = append(*w, hx(i.Name), b01(i.Unique), strconv.Itoa(len(i.Parts)))
	for _, p := range i.Parts {
		c, x := "~", "~"
		if p.C != nil {
			c = hx(p.C.Name)
		}
		if r, ok := p.X.(*schema.RawExpr); ok {
			x = hx(r.X)
		}
		if sub := (mysql.SubPart{}); tokDialect == "mysql" && p.C != nil && hasAttr(p.Attrs, &sub) {
			x = hx(strconv.Itoa(sub.Len))
		}
		*w = append(*w, strconv.Itoa(p.SeqNo), b01(p.Desc), c, x)
	}
	var (
		pr sqlite.IndexPredicate
		cm schema.Comment
		or sqlite.IndexOrigin
	)
	hp, hc, ho := hasAttr(i.Attrs, &pr), hasAttr(i.Attrs, &cm), hasAttr(i.Attrs, &or)
	switch tokDialect {
	case "mysql":
		var it mysql.IndexType
		hasAttr(i.Attrs, &it)
		ho, or.O = true, it.T
	case "postgres":
		var (
			it  postgres.IndexType
			pp  postgres.IndexPredicate
			inc postgres.IndexInclude
			nd  postgres.IndexNullsDistinct
		)
		hasAttr(i.Attrs, &it)
		hp = hasAttr(i.Attrs, &pp)
		pr.P = pp.P
		var cols []string
		if hasAttr(i.Attrs, &inc) {
			for _, c := range inc.Columns {
				cols = append(cols, c.Name)
			}
		}
		nnd := ""
		if hasAttr(i.Attrs, &nd) && !nd.V {
			nnd = "1"
		}
		ho, or.O = true, strings.Join([]string{it.T, nnd, strings.Join(cols, ",")}, us)
	}
	*w = append(*w, optTok(hp, pr.P), optTok(hc, cm.Text), optTok(ho, or.O))
}

// tokTable writes the tokens of one table.  forCase: the model-input format (explicit index order,
// then the AUTOINCREMENT columns and the inline UNIQUE constraints); else the canonical observation
// format (indexes sorted by name, AUTOINCREMENT columns, no uniques).
func tokTable(t *schema.Table, uniques [][]string, forCase bool, w *[]string) {
	*w = append(*w, hx(t.Name), b01(hasAttr(t.Attrs, &sqlite.WithoutRowID{})), b01(hasAttr(t.Attrs, &sqlite.Strict{})), strconv.Itoa(len(t.Columns)))
	for _, c := range t.Columns {
		tokCol(t, c, w)
	}
	if t.PrimaryKey == nil {
		*w = append(*w, "~")
	} else {
		*w = append(*w, "P")
		tokIdx(t.PrimaryKey, w)
	}
	idxs := append([]*schema.Index(nil), t.Indexes...)
	if !forCase {
		sort.SliceStable(idxs, func(i, j int) bool { return idxs[i].Name < idxs[j].Name })
	}
	*w = append(*w, strconv.Itoa(len(idxs)))
	for _, i := range idxs {
		tokIdx(i, w)
	}
	*w = append(*w, strconv.Itoa(len(t.ForeignKeys)))
	for _, f := range t.ForeignKeys {
		*w = append(*w, hx(f.Symbol), strconv.Itoa(len(f.Columns)))
		for _, c := range f.Columns {
			*w = append(*w, hx(c.Name))
		}
		*w = append(*w, hx(f.RefTable.Name), strconv.Itoa(len(f.RefColumns)))
		for _, c := range f.RefColumns {
			*w = append(*w, hx(c.Name))
		}
		*w = append(*w, hx(string(f.OnUpdate)), hx(string(f.OnDelete)))
	}
	var ks []*schema.Check
	for _, a := range t.Attrs {
		if k, ok := a.(*schema.Check); ok {
			ks = append(ks, k)
		}
	}
	*w = append(*w, strconv.Itoa(len(ks)))
	for _, k := range ks {
		*w = append(*w, hx(k.Name), hx(k.Expr))
	}
	var ai []string
	for _, c := range t.Columns {
		if hasAttr(c.Attrs, &sqlite.AutoIncrement{}) {
			ai = append(ai, c.Name)
		}
	}
	*w = append(*w, strconv.Itoa(len(ai)))
	for _, a := range ai {
		*w = append(*w, hx(a))
	}
	if forCase {
		*w = append(*w, strconv.Itoa(len(uniques)))
		for _, u := range uniques {
			*w = append(*w, strconv.Itoa(len(u)))
			for _, c := range u {
				*w = append(*w, hx(c))
			}
		}
	}
}

// tokCase: a schema as model input (name, tables in order, each with autoinc + uniques of the spec).
func tokCase(s *schema.Schema, spec Schema) string {
	w := []string{hx(s.Name), strconv.Itoa(len(s.Tables))}
	for i, t := range s.Tables {
		var u [][]string
		if i < len(spec.Tables) {
			u = spec.Tables[i].Uniques
		}
		tokTable(t, u, true, &w)
	}
	return strings.Join(w, " ")
}

// tokObs: the canonical text of an inspected schema (tables sorted by name).
func tokObs(s *schema.Schema) string {
	ts := append([]*schema.Table(nil), s.Tables...)
	sort.SliceStable(ts, func(i, j int) bool { return ts[i].Name < ts[j].Name })
	w := []string{strconv.Itoa(len(ts))}
	for _, t := range ts {
		tokTable(t, nil, false, &w)
	}
	return strings.Join(w, " ")
}

func typeOf(t schema.Type) reflect.Type { return reflect.TypeOf(t) }
