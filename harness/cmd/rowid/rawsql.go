// The harness' own printer of SQLite DDL for a spec (used to set up "current" databases that Atlas
// did not create, and to decide whether a desired schema is valid SQLite at all).  It follows the
// clause order and quoting of Atlas' printer (the domain InspectModel.v describes) and adds inline
// UNIQUE constraints.
package main

import (
	"fmt"
	"strings"

	"ariga.io/atlas/sql/schema"
	"ariga.io/atlas/sql/sqlite"
)

func q(s string) string { return "`" + strings.ReplaceAll(s, "`", "``") + "`" }

func qs(l []string) string {
	o := make([]string, len(l))
	for i, s := range l {
		o[i] = q(s)
	}
	return strings.Join(o, ", ")
}

// numericKey: literal defaults of these types are printed unquoted (defaultValue in migrate.go).
func numericType(t schema.Type) bool {
	switch t.(type) {
	case *schema.BoolType, *schema.DecimalType, *schema.IntegerType, *schema.FloatType:
		return true
	}
	return false
}

func isQuotedBy(s string, c byte) bool {
	return len(s) >= 2 && s[0] == c && s[len(s)-1] == c
}

func wrapped(s string) bool {
	if len(s) < 2 || s[0] != '(' || s[len(s)-1] != ')' {
		return false
	}
	d := 0
	for i := 0; i < len(s); i++ {
		switch s[i] {
		case '(':
			d++
		case ')':
			d--
			if d == 0 && i != len(s)-1 {
				return false
			}
		case '\'':
			j := strings.IndexByte(s[i+1:], '\'')
			if j < 0 {
				return false
			}
			i += j + 1
		}
	}
	return d == 0
}

func mayWrap(s string) string {
	if wrapped(s) {
		return s
	}
	return "(" + s + ")"
}

func rawDefault(c Col) string {
	if c.Def.Raw {
		return mayWrap(c.Def.V)
	}
	if numericType(parseType("sqlite", c.Type)) || isQuotedBy(c.Def.V, '\'') {
		return c.Def.V
	}
	if isQuotedBy(c.Def.V, '"') {
		return "'" + strings.ReplaceAll(c.Def.V[1:len(c.Def.V)-1], "'", "''") + "'"
	}
	return "'" + strings.ReplaceAll(c.Def.V, "'", "''") + "'"
}

func typeText(key string) string {
	t := parseType("sqlite", key)
	f, err := sqlite.FormatType(t)
	if err != nil {
		panic(err)
	}
	return f
}

func rawCheckExpr(e string) string {
	// unlike check() of migrate.go: wrap unless the text is one parenthesised expression
	return mayWrap(strings.TrimSpace(e))
}

func autoincCol(t Table, c string) bool {
	for _, a := range t.AutoIncCols {
		if a == c {
			return true
		}
	}
	return false
}

// rawCreate returns CREATE TABLE + CREATE INDEX statements for one table.
func rawCreate(t Table) []string {
	var defs []string
	inlinePK := false
	for _, c := range t.Cols {
		d := q(c.Name) + " " + typeText(c.Type)
		if !c.Null {
			d += " NOT"
		}
		d += " NULL"
		if c.Def != nil {
			d += " DEFAULT " + rawDefault(c)
		}
		if autoincCol(t, c.Name) {
			d += " PRIMARY KEY AUTOINCREMENT"
			inlinePK = true
		} else if c.Gen != nil {
			d += " AS " + mayWrap(c.Gen.Expr) + " " + c.Gen.Type
		}
		defs = append(defs, d)
	}
	if t.PK != nil && !(inlinePK && len(t.PK.Parts) == 1 && autoincCol(t, t.PK.Parts[0].Col)) {
		defs = append(defs, "PRIMARY KEY "+rawParts(t.PK.Parts))
	}
	for _, u := range t.Uniques {
		defs = append(defs, "UNIQUE ("+qs(u)+")")
	}
	for _, f := range t.FKs {
		d := ""
		if f.Symbol != "" {
			d = "CONSTRAINT " + q(f.Symbol) + " "
		}
		d += "FOREIGN KEY (" + qs(f.Cols) + ") REFERENCES " + q(f.RefTable) + " (" + qs(f.RefCols) + ")"
		if f.OnUpdate != "" {
			d += " ON UPDATE " + f.OnUpdate
		}
		if f.OnDelete != "" {
			d += " ON DELETE " + f.OnDelete
		}
		defs = append(defs, d)
	}
	for _, k := range t.Checks {
		d := ""
		if k.Name != "" {
			d = "CONSTRAINT " + q(k.Name) + " "
		}
		defs = append(defs, d+"CHECK "+rawCheckExpr(k.Expr))
	}
	s := "CREATE TABLE " + q(t.Name) + " (" + strings.Join(defs, ", ") + ")"
	var opts []string
	if t.WithoutRowID {
		opts = append(opts, "WITHOUT ROWID")
	}
	if t.Strict {
		opts = append(opts, "STRICT")
	}
	if len(opts) > 0 {
		s += " " + strings.Join(opts, ", ")
	}
	out := []string{s}
	for _, i := range t.Idx {
		out = append(out, rawIndex(t.Name, i))
	}
	return out
}

func rawParts(ps []Part) string {
	var o []string
	for _, p := range ps {
		s := ""
		if p.Col != "" {
			s = q(p.Col)
		} else {
			s = mayWrap(p.Expr)
		}
		if p.Desc {
			s += " DESC"
		}
		o = append(o, s)
	}
	return "(" + strings.Join(o, ", ") + ")"
}

func rawIndex(tn string, i Idx) string {
	s := "CREATE "
	if i.Unique {
		s += "UNIQUE "
	}
	s += "INDEX " + q(i.Name) + " ON " + q(tn) + " " + rawParts(i.Parts)
	if i.Pred != nil {
		s += " WHERE " + *i.Pred
	}
	return s
}

func rawSchema(s Schema) []string {
	var out []string
	for _, t := range s.Tables {
		out = append(out, rawCreate(t)...)
	}
	return out
}

// validSQLite: the raw DDL of the spec executes on a fresh real database.
func validSQLite(s Schema) error {
	l, err := openDB("", false, false)
	if err != nil {
		return err
	}
	defer l.Close()
	for _, st := range rawSchema(s) {
		if err := l.exec(st); err != nil {
			return fmt.Errorf("%s: %w", st, err)
		}
	}
	return nil
}
