package main

import (
	"fmt"
	"strings"

	"ariga.io/atlas/sql/schema"
	"ariga.io/atlas/sql/sqlite"
)

// readable prints an inspected schema for humans (probe mode, violation messages).
func readable(s *schema.Schema) string {
	var b strings.Builder
	for _, t := range s.Tables {
		fmt.Fprintf(&b, "table %s wr=%v strict=%v\n", t.Name, hasAttr(t.Attrs, &sqlite.WithoutRowID{}), hasAttr(t.Attrs, &sqlite.Strict{}))
		for _, c := range t.Columns {
			ty := "<nil>"
			if c.Type != nil && c.Type.Type != nil {
				f, _ := sqlite.FormatType(c.Type.Type)
				ty = fmt.Sprintf("%T/%s raw=%q", c.Type.Type, f, c.Type.Raw)
			}
			d := "-"
			switch x := c.Default.(type) {
			case *schema.Literal:
				d = "L:" + x.V
			case *schema.RawExpr:
				d = "R:" + x.X
			}
			var g schema.GeneratedExpr
			gs := "-"
			if hasAttr(c.Attrs, &g) {
				gs = g.Expr + "/" + g.Type
			}
			fmt.Fprintf(&b, "  col %s %s null=%v def=%s gen=%s autoinc=%v\n", c.Name, ty, c.Type.Null, d, gs, hasAttr(c.Attrs, &sqlite.AutoIncrement{}))
		}
		if t.PrimaryKey != nil {
			fmt.Fprintf(&b, "  pk %s autoinc=%v\n", showIdx(t.PrimaryKey), hasAttr(t.PrimaryKey.Attrs, &sqlite.AutoIncrement{}))
		}
		for _, i := range t.Indexes {
			fmt.Fprintf(&b, "  idx %s\n", showIdx(i))
		}
		for _, f := range t.ForeignKeys {
			var cs, rs []string
			for _, c := range f.Columns {
				cs = append(cs, c.Name)
			}
			for _, c := range f.RefColumns {
				rs = append(rs, c.Name)
			}
			fmt.Fprintf(&b, "  fk %q (%s) -> %s(%s) upd=%q del=%q\n", f.Symbol, strings.Join(cs, ","), f.RefTable.Name, strings.Join(rs, ","), f.OnUpdate, f.OnDelete)
		}
		for _, a := range t.Attrs {
			if k, ok := a.(*schema.Check); ok {
				fmt.Fprintf(&b, "  check %q %s\n", k.Name, k.Expr)
			}
		}
	}
	return b.String()
}

func showIdx(i *schema.Index) string {
	var ps []string
	for _, p := range i.Parts {
		s := fmt.Sprintf("#%d:", p.SeqNo)
		if p.C != nil {
			s += p.C.Name
		} else if x, ok := p.X.(*schema.RawExpr); ok {
			s += "X{" + x.X + "}"
		}
		if p.Desc {
			s += " DESC"
		}
		ps = append(ps, s)
	}
	var pr sqlite.IndexPredicate
	var or sqlite.IndexOrigin
	hp := hasAttr(i.Attrs, &pr)
	hasAttr(i.Attrs, &or)
	return fmt.Sprintf("%q unique=%v [%s] pred=%v:%q origin=%q", i.Name, i.Unique, strings.Join(ps, ", "), hp, pr.P, or.O)
}
