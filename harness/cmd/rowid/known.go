// Input classes of the open known findings of C01: classifiers over the (current, desired) specs
// and injectors that build one witness of each class.  The oracle prefixes every violation message
// with "input-class=<classes>;" so that known_findings.d/C01.json can match a class narrowly; a
// violation outside every class carries "input-class=none;".
package main

import (
	"sort"
	"strings"
)

func positions(t *Table) map[string]int {
	m := map[string]int{}
	for i, c := range t.Cols {
		m[c.Name] = i
	}
	return m
}

// classifyFor: with an inspected desired state unnamed foreign keys carry numeric symbols, not empty ones,
// so the class two-unnamed-fks (empty symbols) does not apply
func classifyFor(a, b Schema, inspected bool) string {
	c := classify(a, b)
	if !inspected {
		return c
	}
	var keep []string
	for _, x := range strings.Split(c, "+") {
		if x != "two-unnamed-fks" {
			keep = append(keep, x)
		}
	}
	if len(keep) == 0 {
		return "none"
	}
	return strings.Join(keep, "+")
}

// fixedClasses: input classes of findings that were repaired in the Go code (known_findings.d/C01.json:
// "status": "fixed: ..."): they are generated like any other input, classify does not report them, and
// a violation on them is a new violation again (so reverting the patch is caught with a failing input).
// classifyRaw still recognises them: the witness streams of the oracle stage keep running as regression tests.
var fixedClasses = map[string]bool{"check-parens": true, "drop-inline-unique": true, "gen-col-name-prefix": true, "pk-order": true, "raw-default-parens": true}

func classify(a, b Schema) string {
	var keep []string
	for _, x := range strings.Split(classifyRaw(a, b), "+") {
		if x != "none" && !fixedClasses[x] {
			keep = append(keep, x)
		}
	}
	if len(keep) == 0 {
		return "none"
	}
	return strings.Join(keep, "+")
}

func classifyRaw(a, b Schema) string {
	set := map[string]bool{}
	for ti := range b.Tables {
		t := &b.Tables[ti]
		unnamed := 0
		for _, f := range t.FKs {
			if f.Symbol == "" {
				unnamed++
			}
		}
		if unnamed >= 2 {
			set["two-unnamed-fks"] = true
		}
		for j, c := range t.Cols {
			if c.Gen == nil {
				continue
			}
			for i := 0; i < j; i++ {
				d := t.Cols[i]
				if d.Gen != nil && d.Name != c.Name && strings.HasPrefix(d.Name, c.Name) {
					set["gen-col-name-prefix"] = true
				}
			}
		}
		if t.PK != nil {
			pos := positions(t)
			for i := 1; i < len(t.PK.Parts); i++ {
				if pos[t.PK.Parts[i-1].Col] > pos[t.PK.Parts[i].Col] {
					set["pk-order"] = true
				}
			}
			for _, p := range t.PK.Parts {
				if p.Desc {
					set["pk-desc"] = true
				}
			}
		}
		for _, c := range t.Cols {
			if c.Def != nil && c.Def.Raw && wrapped(c.Def.V) {
				set["raw-default-parens"] = true
			}
		}
		for _, k := range t.Checks {
			e := strings.TrimSpace(k.Expr)
			if strings.HasPrefix(e, "(") && strings.HasSuffix(e, ")") && !wrapped(e) {
				set["check-parens"] = true
			}
		}
	}
	for _, t := range a.Tables {
		bt := b.table(t.Name)
		if bt == nil {
			continue
		}
		if strings.Join(t.AutoIncCols, ",") != strings.Join(bt.AutoIncCols, ",") {
			set["autoinc-change"] = true
		}
		for _, k1 := range t.Checks {
			for _, k2 := range bt.Checks {
				if mayWrap(k1.Expr) == mayWrap(k2.Expr) && k1.Name != k2.Name && (k1.Name == "" || k2.Name == "") {
					set["check-name-change"] = true
				}
			}
		}
		for _, f1 := range t.FKs {
			for _, f2 := range bt.FKs {
				if strings.Join(f1.Cols, ",") == strings.Join(f2.Cols, ",") && f1.RefTable == f2.RefTable &&
					strings.Join(f1.RefCols, ",") == strings.Join(f2.RefCols, ",") && f1.Symbol != f2.Symbol {
					set["fk-name-change"] = true
				}
			}
		}
		for i, k1 := range t.Checks {
			for j, k2 := range t.Checks {
				if i < j && mayWrap(k1.Expr) == mayWrap(k2.Expr) {
					set["dup-check-expr"] = true
				}
			}
		}
		for _, u := range t.Uniques {
			kept := false
			for _, i := range bt.Idx {
				if i.Unique && i.Pred == nil && len(i.Parts) == len(u) {
					same := true
					for k, p := range i.Parts {
						same = same && p.Col == u[k] && !p.Desc
					}
					kept = kept || same
				}
			}
			if !kept {
				set["drop-inline-unique"] = true
			}
		}
	}
	// an index name that moves from one current table to another (the receiving table comes first)
	for ai, t := range a.Tables {
		for _, i := range t.Idx {
			for bj, bt := range b.Tables {
				if bt.Name != t.Name && bt.idx(i.Name) != nil {
					if at := a.table(bt.Name); at != nil {
						aj := -1
						for k := range a.Tables {
							if a.Tables[k].Name == bt.Name {
								aj = k
							}
						}
						if aj >= 0 && aj < ai {
							set["index-name-moves"] = true
						}
						_ = bj
					}
				}
			}
		}
	}
	// a current table called new_<t> next to a table <t> that has to be rebuilt
	for _, t := range a.Tables {
		if a.table("new_"+t.Name) != nil && b.table(t.Name) != nil {
			set["new-table-clash"] = true
		}
	}
	if len(set) == 0 {
		return "none"
	}
	var l []string
	for k := range set {
		l = append(l, k)
	}
	sort.Strings(l)
	return strings.Join(l, "+")
}

// witness builds a (current, desired) pair of exactly one known class, on a random base.
func (g *G) witness(class string) (Schema, Schema, bool) {
	for try := 0; try < 50; try++ {
		a := g.schema()
		b := a.clone()
		t := &b.Tables[g.r.Intn(len(b.Tables))]
		ok := false
		switch class {
		case "two-unnamed-fks":
			// two foreign keys without a symbol, on different columns, to a table with a single-column key
			var target *Table
			for i := range b.Tables {
				if p := b.Tables[i].PK; p != nil && len(p.Parts) == 1 {
					target = &b.Tables[i]
				}
			}
			cols := storedCols(t)
			if target != nil && len(cols) >= 2 {
				t.FKs = nil
				for _, c := range cols[:2] {
					t.FKs = append(t.FKs, FK{Cols: []string{c}, RefTable: target.Name, RefCols: []string{target.PK.Parts[0].Col}})
				}
				ok = true
			}
		case "gen-col-name-prefix":
			var src string
			for _, c := range t.Cols {
				if c.Gen == nil && isNumTy(c.Type) && !t.Strict {
					src = c.Name
				}
			}
			if src != "" && !t.hasCol("zq_x") && !t.hasCol("zq") {
				t.Cols = append(t.Cols,
					Col{Name: "zq_x", Type: "int", Null: true, Gen: &Gen{Expr: "`" + src + "` + 1", Type: "VIRTUAL"}},
					Col{Name: "zq", Type: "int", Null: true, Gen: &Gen{Expr: "`" + src + "` * 2", Type: "VIRTUAL"}})
				ok = true
			}
		case "pk-order":
			cols := storedCols(t)
			ref := false
			for _, o := range b.Tables {
				for _, f := range o.FKs {
					ref = ref || f.RefTable == t.Name
				}
			}
			if len(cols) >= 2 && !ref && len(t.AutoIncCols) == 0 {
				t.col(cols[0]).Null, t.col(cols[1]).Null = false, false
				t.PK = &Idx{Parts: []Part{{Seq: 1, Col: cols[1]}, {Seq: 2, Col: cols[0]}}}
				ok = true
			}
		case "pk-desc":
			if t.PK != nil && len(t.AutoIncCols) == 0 && !(len(t.PK.Parts) == 1 && strings.EqualFold(typeText(t.col(t.PK.Parts[0].Col).Type), "integer")) {
				t.PK.Parts[0].Desc = true
				ok = true
			}
		case "raw-default-parens":
			for i := range t.Cols {
				c := &t.Cols[i]
				if c.Gen == nil && isIntTy(c.Type) && !hasStr(t.AutoIncCols, c.Name) {
					c.Def = &Def{Raw: true, V: "(1 + 1)"}
					ok = true
					break
				}
			}
		case "check-parens":
			for _, c := range t.Cols {
				if c.Gen == nil && isNumTy(c.Type) {
					t.Checks = append(t.Checks, Check{Name: "ck_two", Expr: "(`" + c.Name + "` > 0) AND (`" + c.Name + "` < 100)"})
					ok = true
					break
				}
			}
		case "autoinc-change":
			at := a.table(t.Name)
			if len(at.AutoIncCols) == 1 && at.PK != nil && len(at.PK.Parts) == 1 {
				t.AutoIncCols = nil
				ok = true
			}
		case "fk-name-change":
			at := a.table(t.Name)
			if len(at.FKs) > 0 && at.FKs[0].Symbol != "" {
				unnamed := 0
				for _, f := range t.FKs {
					if f.Symbol == "" {
						unnamed++
					}
				}
				if unnamed == 0 {
					t.FKs[0].Symbol = ""
					ok = true
				}
			}
		case "check-name-change":
			at := a.table(t.Name)
			for _, c := range at.Cols {
				if c.Gen == nil && isNumTy(c.Type) && len(at.Checks) == len(t.Checks) {
					e := "`" + c.Name + "` <> 4"
					at.Checks = append(at.Checks, Check{Expr: e})
					t.Checks = append(t.Checks, Check{Name: "ck_named", Expr: e})
					ok = true
					break
				}
			}
		case "dup-check-expr":
			at := a.table(t.Name)
			for _, c := range at.Cols {
				if c.Gen == nil && isNumTy(c.Type) && len(at.Checks) == len(t.Checks) {
					e := "`" + c.Name + "` <> 3"
					at.Checks = append(at.Checks, Check{Expr: e}, Check{Name: "ck_dup", Expr: e})
					t.Checks = append(t.Checks, Check{Expr: e})
					ok = true
					break
				}
			}
		case "index-name-moves":
			if len(a.Tables) >= 2 {
				first, last := &a.Tables[0], &a.Tables[len(a.Tables)-1]
				bf, bl := b.table(first.Name), b.table(last.Name)
				nm := "idx_moving"
				if !nameUsed(&a, nm) {
					last.Idx = append(last.Idx, Idx{Name: nm, Parts: []Part{{Seq: 1, Col: storedCols(last)[0]}}})
					bf.Idx = append(bf.Idx, Idx{Name: nm, Parts: []Part{{Seq: 1, Col: storedCols(bf)[0]}}})
					_ = bl
					ok = true
				}
			}
		case "new-table-clash":
			at := a.table(t.Name)
			if a.table("new_"+t.Name) == nil && !nameUsed(&a, "new_"+t.Name) {
				extra := Table{Name: "new_" + t.Name, Cols: []Col{{Name: "id", Type: "int", Null: true}}}
				a.Tables = append(a.Tables, extra)
				b.Tables = append(b.Tables, extra.clone())
				bt := b.table(t.Name)
				c := &bt.Cols[len(bt.Cols)-1]
				if c.Gen == nil && !hasStr(bt.AutoIncCols, c.Name) && at != nil {
					inPK := false
					if bt.PK != nil {
						for _, p := range bt.PK.Parts {
							inPK = inPK || p.Col == c.Name
						}
					}
					if !inPK {
						c.Null = !c.Null // forces the rebuild
						ok = true
					}
				}
			}
		case "drop-inline-unique":
			at := a.table(t.Name)
			cols := storedCols(at)
			c := cols[len(cols)-1]
			if !(at.PK != nil && len(at.PK.Parts) == 1 && at.PK.Parts[0].Col == c) && !nameUsed(&a, at.Name+"_"+c) {
				at.Uniques = [][]string{{c}}
				ok = true
			}
		}
		if ok && classifyRaw(a, b) == class && validSQLite(a) == nil {
			return a, b, true
		}
	}
	return Schema{}, Schema{}, false
}

var knownClasses = []string{"fk-name-change", "check-name-change", "index-name-moves", "new-table-clash", "autoinc-change", "dup-check-expr", "two-unnamed-fks", "gen-col-name-prefix", "pk-order", "pk-desc", "raw-default-parens", "check-parens", "drop-inline-unique"}
