// C05 round 5, stage rowid: rows *with their rowids* and sqlite_sequence through a real apply
// (Driver.InspectSchema -> SchemaDiff -> Driver.ApplyChanges on go-sqlite3) against the shared
// planner + engine model (PlanModel.PlanChanges, EngineModel.exec, SeqModel.exec_seq_count).
//
// This directory is a copy of harness/cmd/sqlite (the C01 harness: spec, token format, generator);
// only this file and the "rowid" case of main.go are new.
package main

import (
	"context"
	"fmt"
	"sort"
	"strconv"
	"strings"

	"ariga.io/atlas/sql/schema"
	"ariga.io/atlas/sql/sqlite"
)

type seqEnt struct {
	name string
	seq  int64
}

type rowidFixedCase struct {
	a, b Schema
	desc string
}

func isAliasTable(t *Table) (string, bool) {
	if t.WithoutRowID || t.PK == nil || len(t.PK.Parts) != 1 {
		return "", false
	}
	if pc := t.col(t.PK.Parts[0].Col); pc != nil && strings.EqualFold(typeText(pc.Type), "integer") && !t.PK.Parts[0].Desc {
		return pc.Name, true
	}
	return "", false
}

// rows with rowid gaps (rows were deleted in between); in a table with an INTEGER PRIMARY KEY the
// key *is* the rowid
func rowidRows(g *G, t Table, max int) []rowSpec {
	for _, c := range t.Cols {
		if c.Gen == nil && !c.Null && !isTextTy(c.Type) && !intSafe(c.Type) {
			return nil
		}
	}
	alias, _ := isAliasTable(&t)
	n := g.r.Intn(max + 1)
	rid := 0
	var out []rowSpec
	for i := 0; i < n; i++ {
		rid += 1 + g.r.Intn(3)
		r := rowSpec{table: t.Name, rowid: rid}
		for ci, c := range t.Cols {
			if c.Gen != nil {
				continue
			}
			inPK := false
			if t.PK != nil {
				for _, p := range t.PK.Parts {
					inPK = inPK || p.Col == c.Name
				}
			}
			v := ""
			switch {
			case c.Name == alias:
				v = "I" + strconv.Itoa(rid)
			case c.Null && !inPK && !noNull[t.Name+"."+c.Name] && g.r.Chance(1, 4):
				v = "N"
			case isTextTy(c.Type):
				v = "T" + hx(fmt.Sprintf("v%d_%d", i, ci))
			case intSafe(c.Type):
				v = "I" + strconv.Itoa(100+i*11+ci)
			default:
				v = "N"
			}
			r.cols = append(r.cols, c.Name)
			r.vals = append(r.vals, v)
		}
		out = append(out, r)
	}
	return out
}

func readSeq(l *liveDB) []seqEnt {
	rs, err := l.db.Query("SELECT name, seq FROM sqlite_sequence")
	if err != nil {
		return nil // no AUTOINCREMENT table was ever created
	}
	defer rs.Close()
	var out []seqEnt
	for rs.Next() {
		var e seqEnt
		if err := rs.Scan(&e.name, &e.seq); err != nil {
			panic(err)
		}
		out = append(out, e)
	}
	sort.Slice(out, func(i, j int) bool { return out[i].name < out[j].name })
	return out
}

func showSeq(l []seqEnt) string {
	var p []string
	for _, e := range l {
		p = append(p, e.name+"="+strconv.FormatInt(e.seq, 10))
	}
	sort.Strings(p)
	return strings.Join(p, ",")
}

type ridRow struct {
	rid  string // "-" for WITHOUT ROWID
	vals map[string]string
	line string
}

// rows of every table with their rowid, in rowid (scan) order
func readRowsRid(l *liveDB, s *schema.Schema) map[string][]ridRow {
	out := map[string][]ridRow{}
	for _, t := range s.Tables {
		var cols, names []string
		for _, c := range t.Columns {
			if !hasAttr(c.Attrs, &schema.GeneratedExpr{}) {
				cols = append(cols, "quote("+q(c.Name)+")")
				names = append(names, c.Name)
			}
		}
		wr := hasAttr(t.Attrs, &sqlite.WithoutRowID{})
		sel := "SELECT rowid, "
		if wr {
			sel = "SELECT '-', "
		}
		qy := sel + strings.Join(cols, ", ") + " FROM " + q(t.Name)
		if !wr {
			qy += " ORDER BY rowid"
		}
		rs, err := l.db.Query(qy)
		if err != nil {
			out[t.Name] = []ridRow{{rid: "?", line: "?" + err.Error()}}
			continue
		}
		var rows []ridRow
		for rs.Next() {
			vals := make([]any, len(cols)+1)
			strs := make([]string, len(cols)+1)
			for i := range vals {
				vals[i] = &strs[i]
			}
			if err := rs.Scan(vals...); err != nil {
				rows = append(rows, ridRow{rid: "?", line: "?" + err.Error()})
				continue
			}
			r := ridRow{rid: strs[0], vals: map[string]string{}}
			var toks []string
			for i, s := range strs[1:] {
				r.vals[names[i]] = valTok(s)
				toks = append(toks, valTok(s))
			}
			r.line = r.rid + ":" + strings.Join(toks, ",")
			rows = append(rows, r)
		}
		rs.Close()
		out[t.Name] = rows
	}
	return out
}

func showRowsRid(m map[string][]ridRow) string {
	var names []string
	for n := range m {
		names = append(names, n)
	}
	sort.Strings(names)
	var parts []string
	for _, n := range names {
		// the rowids as a sorted list, then the rows sorted: which row gets which fresh rowid depends on the order in
		// which SQLite scans the source (a covering index, a WITHOUT ROWID source), which the model does not fix
		var ls, rids []string
		for _, r := range m[n] {
			ls = append(ls, strings.SplitN(r.line, ":", 2)[1])
			rids = append(rids, r.rid)
		}
		sort.Strings(ls)
		sort.Slice(rids, func(i, j int) bool {
			a, _ := strconv.Atoi(rids[i])
			b, _ := strconv.Atoi(rids[j])
			return a < b
		})
		parts = append(parts, n+"["+strings.Join(rids, ",")+"|"+strings.Join(ls, ";")+"]")
	}
	return strings.Join(parts, " ")
}

// a view or trigger of the current database (unmanaged by the community driver): its DDL and what the model keeps of it
type depSpec struct {
	ddl, name, on string
	reads         []string
}

func (c *ctx) rowidCase(a, b Schema, rows []rowSpec, bump bool, fk bool, desc string, deps ...depSpec) {
	id := c.id("r")
	bg := context.Background()
	l, err := openDB(c.dir, false, false)
	if err != nil {
		panic(err)
	}
	defer l.Close()
	var obs []string
	add := func(s string) { obs = append(obs, s) }
	for _, st := range rawSchema(a) {
		if err := l.exec(st); err != nil {
			return // not a usable base
		}
	}
	for _, d := range deps {
		if err := l.exec(d.ddl); err != nil {
			panic(fmt.Sprintf("harness: %v (%s)", err, d.ddl))
		}
	}
	var kept []rowSpec
	for _, r := range rows {
		if err := l.exec(insertSQL(r, *a.table(r.table))); err != nil {
			if rowError(err) || strings.Contains(err.Error(), "constraint failed") {
				continue // a generated row the current schema rejects (CHECK, UNIQUE): left out
			}
			panic(fmt.Sprintf("harness: insert failed: %v (%s)", err, insertSQL(r, *a.table(r.table))))
		}
		kept = append(kept, r)
	}
	rows = kept
	// rows with higher ids existed once and were deleted: the AUTOINCREMENT counter is ahead of the rows
	if bump {
		for _, t := range a.Tables {
			if len(t.AutoIncCols) == 0 {
				continue
			}
			top := 0
			for _, r := range rows {
				if r.table == t.Name && r.rowid > top {
					top = r.rowid
				}
			}
			v := strconv.Itoa(top + 2 + c.r.Intn(5))
			if err := l.exec("DELETE FROM sqlite_sequence WHERE name = '" + strings.ReplaceAll(t.Name, "'", "''") + "'"); err != nil {
				panic(err)
			}
			if err := l.exec("INSERT INTO sqlite_sequence (name, seq) VALUES ('" + strings.ReplaceAll(t.Name, "'", "''") + "', " + v + ")"); err != nil {
				panic(err)
			}
		}
	}
	seq0 := readSeq(l)
	fromSpec := build("sqlite", a)
	line := "R " + b01(fk) + " " + tokCase(fromSpec, a) + " " + strconv.Itoa(len(rows))
	for _, r := range rows {
		line += " " + hx(r.table) + " " + strconv.Itoa(r.rowid) + " " + strconv.Itoa(len(r.cols))
		for i := range r.cols {
			line += " " + hx(r.cols[i]) + " " + r.vals[i]
		}
	}
	line += " " + strconv.Itoa(len(seq0))
	for _, e := range seq0 {
		line += " " + hx(e.name) + " " + strconv.FormatInt(e.seq, 10)
	}
	line += " " + strconv.Itoa(len(deps))
	for _, d := range deps {
		on := "~"
		if d.on != "" {
			on = hx(d.on)
		}
		line += " " + hx(d.name) + " " + on + " " + strconv.Itoa(len(d.reads))
		for _, r := range d.reads {
			line += " " + hx(r)
		}
	}
	line += " " + tokCase(build("sqlite", b), b)
	add("S0 ok")
	if fk {
		if err := l.exec("PRAGMA foreign_keys = on"); err != nil {
			panic(err)
		}
	}
	cur, err := l.inspect()
	if err != nil {
		return
	}
	before := readRowsRid(l, cur)
	cs, derr, pan := diffReal(cur, build("sqlite", b))
	if pan != "" || derr != nil {
		return // C01/C02 matter
	}
	rebuilt := map[string]bool{}
	if p, err := l.drv.PlanChanges(bg, "rowid", cs); err == nil {
		for _, ch := range p.Changes {
			if strings.HasPrefix(ch.Comment, "copy rows") {
				if m, ok := ch.Source.(*schema.ModifyTable); ok {
					rebuilt[m.T.Name] = true
				}
			}
		}
	}
	aerr := l.drv.ApplyChanges(bg, cs)
	switch e := aerr.(type) {
	case nil:
		add("AP ok")
	case interface{ Applied() int }:
		add("AP err@" + strconv.Itoa(e.Applied()))
	default:
		add("AP plan-err")
	}
	after, err := l.inspect()
	if err != nil {
		c.w.Violation(id, "inspect-error", fmt.Sprintf("InspectSchema fails after apply: %v [%s]", err, desc))
		return
	}
	rowsAfter := readRowsRid(l, after)
	seq1 := readSeq(l)
	if len(deps) > 0 {
		var names []string
		if rs, err := l.db.Query("SELECT name FROM sqlite_master WHERE type IN ('view', 'trigger')"); err == nil {
			for rs.Next() {
				var n string
				rs.Scan(&n)
				names = append(names, n)
			}
			rs.Close()
		}
		sort.Strings(names)
		add("DP " + strings.Join(names, ","))
	}
	add("RR " + showRowsRid(rowsAfter))
	add("SQ " + showSeq(seq1))
	if len(deps) > 0 {
		// tied whatever the outcome: the model says where the run stops (ALTER TABLE RENAME re-parses views and triggers)
		c.w.Case(id, line, obs)
		c.w.NonTrivial("deps:" + desc[:strings.LastIndexByte(desc, '/')])
		if aerr != nil {
			c.w.Count("rowid.refused-by-view-or-trigger")
			if !strings.Contains(aerr.Error(), "error in view") && !strings.Contains(aerr.Error(), "error in trigger") {
				c.w.Violation(id, "unexpected-refusal", fmt.Sprintf("%v [%s]", aerr, desc))
			}
			// no transaction: the rows must be somewhere -- under the table's name or under new_<name>
			for _, ta := range a.Tables {
				n0 := len(before[ta.Name])
				n1, ok := len(rowsAfter[ta.Name]), false
				if _, has := rowsAfter[ta.Name]; has {
					ok = n1 == n0
				} else if tmp, has := rowsAfter["new_"+ta.Name]; has {
					ok = len(tmp) == n0
				}
				if !ok {
					c.w.Violation(id, "rows-lost", fmt.Sprintf("table %s held %d rows; after the refused apply they are neither in %s nor in new_%s [%s]", ta.Name, n0, ta.Name, ta.Name, desc))
				} else if _, has := rowsAfter[ta.Name]; !has {
					c.w.Count("rowid.partial-state-rows-under-temp-name")
				}
			}
			return
		}
	} else if aerr != nil {
		// refused: by a constraint over the rows (the engine model has no CHECK / expression-index evaluation) or by a C01
		// matter (known there); nothing is tied, the run only counts
		c.w.Count("rowid.apply-refused")
		c.w.ImplOnly(id, desc)
		return
	}
	if len(deps) == 0 {
		c.w.Case(id, line, obs)
	}
	if len(rebuilt) > 0 && len(rows) > 0 {
		c.w.NonTrivial(showSchemaChanges(cs, nil))
	}
	// ---- oracle, on what the real engine holds
	for _, tb := range b.Tables {
		ta := a.table(tb.Name)
		if ta == nil {
			continue
		}
		old, now := before[tb.Name], rowsAfter[tb.Name]
		shared := []string{}
		for _, cb := range tb.Cols {
			if ca := ta.col(cb.Name); ca != nil && ca.Gen == nil && cb.Gen == nil && ca.Type == cb.Type {
				shared = append(shared, cb.Name)
			}
		}
		if len(shared) == 0 {
			continue // the no-common-column finding of stage exhaust
		}
		if len(old) != len(now) {
			c.w.Violation(id, "rows-lost", fmt.Sprintf("table %s held %d rows, holds %d after the apply [%s]", tb.Name, len(old), len(now), desc))
			continue
		}
		aliasColA, aliasA := isAliasTable(ta)
		aliasColB, aliasB := isAliasTable(&tb)
		var cmp []string // shared columns outside the IFNULL replacement (decided in round 1, checked by stage exhaust)
		for _, cn := range shared {
			if cb, ca := tb.col(cn), ta.col(cn); ca.Null && !cb.Null && cb.Def != nil {
				continue
			}
			cmp = append(cmp, cn)
		}
		proj := func(r ridRow) string {
			var p []string
			for _, cn := range cmp {
				p = append(p, r.vals[cn])
			}
			return strings.Join(p, ",")
		}
		var po, pn []string
		for i := range old {
			po = append(po, proj(old[i]))
			pn = append(pn, proj(now[i]))
		}
		sort.Strings(po)
		sort.Strings(pn)
		if strings.Join(po, ";") != strings.Join(pn, ";") {
			c.w.Violation(id, "value-changed", fmt.Sprintf("table %s, columns %v: rows were %s, are %s [%s]", tb.Name, cmp, strings.Join(po, ";"), strings.Join(pn, ";"), desc))
		}
		renum := false
		byRid := map[string]ridRow{}
		for _, r := range old {
			byRid[r.rid] = r
		}
		for i := range now {
			if old[i].rid != now[i].rid {
				renum = true
			}
			if aliasA && aliasB && aliasColA == aliasColB {
				// the INTEGER PRIMARY KEY is the rowid: the row with this key is the row with this rowid
				o, ok := byRid[now[i].rid]
				if !ok {
					c.w.Violation(id, "rowid-changed", fmt.Sprintf("table %s has the INTEGER PRIMARY KEY %s before and after; no row had rowid %s [%s]", tb.Name, aliasColB, now[i].rid, desc))
				} else if proj(o) != proj(now[i]) {
					c.w.Violation(id, "value-changed", fmt.Sprintf("table %s, rowid %s: %s -> %s [%s]", tb.Name, now[i].rid, proj(o), proj(now[i]), desc))
				}
			}
		}
		if renum {
			c.w.Count("rowid.rowid-renumbered")
		} else if rebuilt[tb.Name] && len(old) > 0 {
			c.w.Count("rowid.rowid-kept")
		}
		// the AUTOINCREMENT counter of a table that is AUTOINCREMENT before and after
		if len(ta.AutoIncCols) > 0 && len(tb.AutoIncCols) > 0 {
			var s0, s1 int64 = -1, -1
			for _, e := range seq0 {
				if e.name == tb.Name {
					s0 = e.seq
				}
			}
			for _, e := range seq1 {
				if e.name == tb.Name {
					s1 = e.seq
				}
			}
			if s0 >= 0 && s1 < s0 {
				c.w.Count("rowid.sequence-reset")
				c.w.Violation(id, "sequence-reset", fmt.Sprintf("AUTOINCREMENT table %s: sqlite_sequence.seq was %d, is %d after the apply (largest rowid %d); ids up to %d will be handed out a second time [%s]", tb.Name, s0, s1, topRid(now), s0, desc))
			} else if s0 >= 0 {
				c.w.Count("rowid.sequence-kept")
			}
		}
	}
}

func topRid(l []ridRow) int {
	top := 0
	for _, r := range l {
		if v, err := strconv.Atoi(r.rid); err == nil && v > top {
			top = v
		}
	}
	return top
}

func tcol(n, ty string, null bool) Col { return Col{Name: n, Type: ty, Null: null} }

func rowidFixed() []rowidFixedCase {
	pk := func(c string) *Idx { return &Idx{Parts: []Part{{Seq: 0, Col: c}}} }
	dq := &Def{V: "q"}
	var out []rowidFixedCase
	mk := func(desc string, ta, tb Table) {
		by := Table{Name: "bystander", Cols: []Col{tcol("k", "integer", false), tcol("w", "text", true)}}
		out = append(out, rowidFixedCase{a: Schema{Name: "main", Tables: []Table{ta, by}}, b: Schema{Name: "main", Tables: []Table{tb, by}}, desc: desc})
	}
	// AUTOINCREMENT table rebuilt
	ai := Table{Name: "t", Cols: []Col{tcol("id", "integer", false), tcol("v", "text", true)}, PK: pk("id"), AutoIncCols: []string{"id"}}
	ai2 := ai.clone()
	ai2.Cols[1] = Col{Name: "v", Type: "text", Null: false, Def: dq}
	mk("fixed:autoinc-notnull-default", ai, ai2)
	ai3 := ai.clone()
	ai3.Checks = []Check{{Name: "", Expr: "(id > 0)"}}
	mk("fixed:autoinc-add-check", ai, ai3)
	ai4 := ai.clone()
	ai4.Cols = append(ai4.Cols, tcol("extra", "text", true))
	mk("fixed:autoinc-add-column-in-place", ai, ai4)
	// INTEGER PRIMARY KEY without AUTOINCREMENT
	ip := Table{Name: "t", Cols: []Col{tcol("id", "integer", false), tcol("v", "text", true)}, PK: pk("id")}
	ip2 := ip.clone()
	ip2.Cols[1] = Col{Name: "v", Type: "text", Null: false, Def: dq}
	mk("fixed:intpk-notnull-default", ip, ip2)
	// no primary key: plain rowid table
	np := Table{Name: "t", Cols: []Col{tcol("a", "text", true), tcol("v", "text", true)}}
	np2 := np.clone()
	np2.Cols[1] = Col{Name: "v", Type: "text", Null: false, Def: dq}
	mk("fixed:nopk-notnull-default", np, np2)
	np3 := np.clone()
	np3.Cols = np3.Cols[:1]
	mk("fixed:nopk-drop-column", np, np3)
	// text primary key (rowid table, no alias), WITHOUT ROWID
	tp := Table{Name: "t", Cols: []Col{tcol("a", "text", false), tcol("v", "text", true)}, PK: pk("a")}
	tp2 := tp.clone()
	tp2.Cols[1] = Col{Name: "v", Type: "text", Null: false, Def: dq}
	mk("fixed:textpk-notnull-default", tp, tp2)
	wr := tp.clone()
	wr.WithoutRowID = true
	wr2 := tp2.clone()
	wr2.WithoutRowID = true
	mk("fixed:worowid-notnull-default", wr, wr2)
	// a rowid table becomes WITHOUT ROWID and back
	mk("fixed:to-worowid", tp, wr)
	mk("fixed:from-worowid", wr, tp)
	// an INTEGER PRIMARY KEY gains / loses AUTOINCREMENT
	mk("fixed:gain-autoinc", ip, ai)
	mk("fixed:lose-autoinc", ai, ip)
	return out
}

func runRowid(c *ctx) {
	c.w.Rule = "a case is non-trivial when the plan rebuilds (copy rows) at least one table of a populated database; distinct by the differ's change list"
	reps := 6
	n := 260
	if c.thorough {
		reps, n = 40, 4000
	}
	fg := &G{r: c.r, plain: true}
	for _, fc := range rowidFixed() {
		for k := 0; k < reps; k++ {
			var rows []rowSpec
			noNull = aliasCols(fc.b)
			for _, t := range fc.a.Tables {
				rows = append(rows, rowidRows(fg, t, 5)...)
			}
			noNull = nil
			c.rowidCase(fc.a, fc.b, rows, k%2 == 0, k%3 == 0, fmt.Sprintf("%s/%d", fc.desc, k))
		}
	}
	// views and triggers over a rebuilt / altered table
	viewDeps := []struct {
		n string
		d []depSpec
	}{
		{"view-on-t", []depSpec{{"CREATE VIEW vv AS SELECT * FROM t", "vv", "", []string{"t"}}}},
		{"trigger-body-mentions-t", []depSpec{{"CREATE TRIGGER tr AFTER DELETE ON bystander BEGIN DELETE FROM t; END", "tr", "bystander", []string{"bystander", "t"}}}},
		{"trigger-on-t", []depSpec{{"CREATE TRIGGER tr2 AFTER INSERT ON t BEGIN UPDATE bystander SET w = 'x'; END", "tr2", "t", []string{"t", "bystander"}}}},
		{"view-on-bystander", []depSpec{{"CREATE VIEW vb AS SELECT k FROM bystander", "vb", "", []string{"bystander"}}}},
		{"view-on-t-and-trigger-on-t", []depSpec{{"CREATE VIEW vv AS SELECT * FROM t", "vv", "", []string{"t"}}, {"CREATE TRIGGER tr2 AFTER INSERT ON t BEGIN UPDATE bystander SET w = 'x'; END", "tr2", "t", []string{"t", "bystander"}}}},
	}
	for fi, fc := range rowidFixed() {
		if fi > 5 && !c.thorough {
			continue
		}
		for vi, vd := range viewDeps {
			var rows []rowSpec
			noNull = aliasCols(fc.b)
			for _, t := range fc.a.Tables {
				rows = append(rows, rowidRows(fg, t, 4)...)
			}
			noNull = nil
			c.rowidCase(fc.a, fc.b, rows, vi%2 == 0, (fi+vi)%2 == 0, fmt.Sprintf("%s+%s/%d", fc.desc, vd.n, vi), vd.d...)
		}
	}
	pg := &G{r: c.r, plain: true}
	for i := 0; i < n; i++ {
		a, b, d := pg.pair()
		if d == "unrelated" || strings.Contains(d, "mod-col-type") || !simpleDefaults(b) || !simpleDefaults(a) || genToPlain(a, b) {
			continue
		}
		var rows []rowSpec
		noNull = aliasCols(b)
		for _, t := range a.Tables {
			rows = append(rows, rowidRows(pg, t, 4)...)
		}
		noNull = nil
		c.rowidCase(a, b, rows, i%2 == 0, i%2 == 0, d+"+rowids")
	}
}
