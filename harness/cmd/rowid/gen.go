// Generator of SQLite schema pairs (current A, desired B): random well-formed base schemas and a
// catalogue of edits biased to mixes on one table.  All randomness comes from harness/internal/rng.
package main

import (
	"fmt"
	"strings"

	"verifharness/internal/rng"
)

type G struct {
	r *rng.R
	// knobs
	allowKnown bool // also generate the input classes of the open known findings
	plain      bool // only defaults and unique indexes whose effect on rows the engine model evaluates (populated model cases)
	odd        bool // every constraint / index name gets a character outside \w (else one name in five)
}

// oddName: constraint names outside \w+ -- dash, space, dot, non-ASCII letter, the two quote characters.  SQLite's
// inspection recovers CHECK / FOREIGN KEY names from the stored CREATE text with \w+, so such a constraint is
// inspected as anonymous (a foreign key keeps its numeric id); the loop still has to converge.
var oddSuffixes = []string{"-x", " not neg", ".v2", "é", "`q", "\"q", "-ü.x y"}

func (g *G) oddName(n string) string {
	if g.odd || g.r.Chance(1, 5) {
		return n + oddSuffixes[g.r.Intn(len(oddSuffixes))]
	}
	return n
}

var (
	tblNames  = []string{"t1", "t2", "users", "Posts", "a", "b", "order_items", "t_3_x", "order", "group"}
	colNames  = []string{"id", "a", "b", "c", "a_b", "ab", "name", "val", "x_note", "Up_ID", "k", "n", "key", "from", "index"}
	typeKeys  = []string{"integer", "int", "bigint", "text", "varchar(255)", "real", "boolean", "numeric", "decimal(10,2)", "datetime", "blob", "json", "uuid", "double", "date", "udt:money", "udt:geo"}
	strictTys = []string{"integer", "int", "real", "text", "blob"}
	actions   = []string{"", "NO ACTION", "CASCADE", "SET NULL", "SET DEFAULT", "RESTRICT"}
)

func isIntTy(k string) bool { return k == "integer" || k == "int" || k == "bigint" }
func isNumTy(k string) bool {
	return isIntTy(k) || k == "real" || k == "double" || k == "numeric" || k == "decimal(10,2)"
}
func isTextTy(k string) bool { return k == "text" || k == "varchar(255)" }

func (g *G) pick(l []string) string { return l[g.r.Intn(len(l))] }

// a default for a column of type k (nil = none)
func (g *G) def(k string) *Def {
	switch g.r.Intn(9) {
	case 0, 1, 2:
		return nil
	}
	if g.plain {
		switch {
		case isIntTy(k) || k == "numeric" || k == "decimal(10,2)" || k == "boolean": // literals of these classes are printed unquoted
			return &[]Def{{V: "5"}, {V: "1"}, {V: "42"}}[g.r.Intn(3)]
		case isTextTy(k):
			return &[]Def{{V: "a"}, {V: "'b'"}, {V: "it's"}, {V: "a b"}}[g.r.Intn(4)]
		}
		return nil
	}
	switch {
	case isIntTy(k):
		return &[]Def{{V: "5"}, {V: "1"}, {V: "+13"}, {V: "42"}, {Raw: true, V: "1 + 1"}, {Raw: true, V: "abs(-3)"}, {Raw: true, V: "random()"}, {Raw: true, V: "(1 + 1)"}, {Raw: true, V: "(abs(-3))"}}[g.r.Intn(9)]
	case k == "boolean":
		return &[]Def{{V: "true"}, {V: "false"}, {V: "1"}, {V: "0"}}[g.r.Intn(4)]
	case isNumTy(k):
		return &[]Def{{V: "1.5"}, {V: "2"}, {V: "2.25"}, {Raw: true, V: "1.5 + 1"}}[g.r.Intn(4)]
	case k == "datetime" || k == "date":
		return &[]Def{{V: "'2020-01-01 00:00:00'"}, {Raw: true, V: "CURRENT_TIMESTAMP"}, {V: "2021-02-03"}, {Raw: true, V: "datetime('now')"}}[g.r.Intn(4)]
	case k == "blob":
		return &[]Def{{V: "x'00ff'"}, {V: "'ab'"}}[g.r.Intn(2)]
	case k == "json":
		return &[]Def{{V: "'{}'"}, {V: "[]"}}[g.r.Intn(2)]
	case k == "uuid":
		return &Def{V: "00000000-0000-0000-0000-000000000000"}
	}
	return &[]Def{{V: "a"}, {V: "'b'"}, {V: "it's"}, {V: ""}, {V: "a b"}, {Raw: true, V: "lower('C')"}, {V: "\"dq\""}, {V: "'(b)'"}, {Raw: true, V: "(lower('C'))"}}[g.r.Intn(9)]
}

func (g *G) col(name string, strict bool) Col {
	k := g.pick(typeKeys)
	if strict {
		k = g.pick(strictTys)
	}
	c := Col{Name: name, Type: k, Null: g.r.Chance(3, 5)}
	c.Def = g.def(k)
	return c
}

func storedCols(t *Table) []string {
	var out []string
	for _, c := range t.Cols {
		if c.Gen == nil {
			out = append(out, c.Name)
		}
	}
	return out
}

func (t *Table) hasCol(n string) bool { return t.col(n) != nil }

func (g *G) freshCol(t *Table) string {
	for k := 0; k < 30; k++ {
		n := g.pick(colNames)
		if !t.hasCol(n) {
			return n
		}
	}
	return fmt.Sprintf("c%d", len(t.Cols)+g.r.Intn(1000))
}

func (g *G) genExpr(t *Table, strict bool) (Col, bool) {
	var src *Col
	for i := range t.Cols {
		if t.Cols[i].Gen == nil && (isNumTy(t.Cols[i].Type) || isTextTy(t.Cols[i].Type)) {
			src = &t.Cols[i]
			if g.r.Bool() {
				break
			}
		}
	}
	if src == nil {
		return Col{}, false
	}
	c := Col{Name: g.freshCol(t), Type: src.Type, Null: true}
	// (names that are a prefix of another generated column's name are generated too: C01-gen-col-name-prefix is fixed)
	if strict && !hasStr(strictTys, c.Type) {
		c.Type = "text"
	}
	var x string
	if isNumTy(src.Type) {
		x = []string{"`%s` + 1", "(`%s` * 2)", "abs(`%s`)"}[g.r.Intn(3)]
	} else {
		x = []string{"lower(`%s`)", "(`%s` || 'x')", "length(`%s`)"}[g.r.Intn(3)]
	}
	c.Gen = &Gen{Expr: fmt.Sprintf(x, src.Name), Type: []string{"VIRTUAL", "STORED", "", "virtual", "stored"}[g.r.Intn(5)]}
	return c, true
}

func prefixClash(t *Table, n string) bool {
	for _, o := range t.Cols {
		if o.Name != n && (strings.HasPrefix(o.Name, n) || strings.HasPrefix(n, o.Name)) {
			return true
		}
	}
	return false
}

func hasStr(l []string, s string) bool {
	for _, x := range l {
		if x == s {
			return true
		}
	}
	return false
}

func (g *G) parts(t *Table, allowExpr bool) []Part {
	cols := storedCols(t)
	if allowExpr && g.r.Chance(1, 5) { // an index may also cover a generated column
		for _, c := range t.Cols {
			if c.Gen != nil {
				cols = append(cols, c.Name)
			}
		}
	}
	n := 1 + g.r.Intn(2)
	if n > len(cols) {
		n = len(cols)
	}
	var ps []Part
	used := map[string]bool{}
	for len(ps) < n {
		c := g.pick(cols)
		if used[c] {
			continue
		}
		used[c] = true
		p := Part{Seq: len(ps) + 1, Col: c, Desc: g.r.Chance(1, 4)}
		if allowExpr && g.r.Chance(1, 6) {
			cc := t.col(c)
			if isTextTy(cc.Type) {
				p.Col, p.Expr = "", []string{"lower(`%s`)", "(lower(`%s`))"}[g.r.Intn(2)]
			} else if isNumTy(cc.Type) {
				p.Col, p.Expr = "", []string{"`%s` + 1", "(`%s` * 2)"}[g.r.Intn(2)]
			}
			if p.Expr != "" {
				p.Expr = fmt.Sprintf(p.Expr, c)
			}
		}
		ps = append(ps, p)
	}
	return ps
}

func (g *G) idxName(s *Schema, t *Table) string {
	for k := 0; ; k++ {
		n := fmt.Sprintf("idx_%s_%d", strings.ToLower(t.Name), g.r.Intn(6)+k)
		if g.r.Chance(1, 8) {
			n = fmt.Sprintf("%s_%s", t.Name, g.pick(storedCols(t))) // the name normalizeIdxName would make up
		}
		if g.odd || g.r.Chance(1, 8) {
			n += oddSuffixes[g.r.Intn(len(oddSuffixes))]
		}
		if !nameUsed(s, n) {
			return n
		}
	}
}

func nameUsed(s *Schema, n string) bool {
	for _, t := range s.Tables {
		if t.Name == n {
			return true
		}
		for _, i := range t.Idx {
			if i.Name == n {
				return true
			}
		}
	}
	return false
}

func (g *G) index(s *Schema, t *Table) Idx {
	i := Idx{Name: g.idxName(s, t), Unique: g.r.Chance(1, 3), Parts: g.parts(t, true)}
	if g.plain && i.Unique {
		i.Parts = g.parts(t, false)
		return i
	}
	if g.r.Chance(1, 5) {
		c := g.pick(storedCols(t))
		i.Pred = sp([]string{"`%s` IS NOT NULL", "(`%s` IS NOT NULL)", "`%s` > 0"}[g.r.Intn(3)])
		*i.Pred = fmt.Sprintf(*i.Pred, c)
	}
	return i
}

func (g *G) check(t *Table, k int) (Check, bool) {
	var cands []*Col
	for i := range t.Cols {
		if t.Cols[i].Gen == nil && (isNumTy(t.Cols[i].Type) || isTextTy(t.Cols[i].Type)) {
			cands = append(cands, &t.Cols[i])
		}
	}
	if len(cands) == 0 {
		return Check{}, false
	}
	c := cands[g.r.Intn(len(cands))]
	var e string
	if isNumTy(c.Type) {
		e = []string{"`%s` > 0", "(`%s` >= 0)", "`%s` <> 7", "(`%s` > 0 AND `%[1]s` < 100)"}[g.r.Intn(4)]
		if g.r.Chance(1, 10) { // starts and ends with a paren without being one parenthesised expression
			e = "(`%s` > 0) AND (`%[1]s` < 100)"
		}
	} else {
		e = []string{"length(`%s`) > 0", "(`%s` <> 'x')", "`%s` <> ''"}[g.r.Intn(3)]
	}
	ck := Check{Expr: fmt.Sprintf(e, c.Name)}
	if g.r.Bool() {
		ck.Name = g.oddName(fmt.Sprintf("ck_%s_%d", strings.ToLower(t.Name), k))
	}
	return ck, true
}

// fk from t to a table of s (or t itself) that has a primary key; column types are not matched (SQLite does not care)
func (g *G) fk(s *Schema, t *Table, k int) (FK, bool) {
	var cands []*Table
	for i := range s.Tables {
		if s.Tables[i].PK != nil {
			cands = append(cands, &s.Tables[i])
		}
	}
	if t.PK != nil && g.r.Chance(1, 3) {
		cands = []*Table{t}
	}
	if len(cands) == 0 {
		return FK{}, false
	}
	rt := cands[g.r.Intn(len(cands))]
	var refc []string
	for _, p := range rt.PK.Parts {
		refc = append(refc, p.Col)
	}
	cols := storedCols(t)
	if len(cols) < len(refc) {
		return FK{}, false
	}
	var cs []string
	used := map[string]bool{}
	for len(cs) < len(refc) {
		c := g.pick(cols)
		if used[c] {
			continue
		}
		used[c] = true
		cs = append(cs, c)
	}
	f := FK{Cols: cs, RefTable: rt.Name, RefCols: refc, OnUpdate: g.pick(actions), OnDelete: g.pick(actions)}
	if g.r.Chance(3, 5) {
		f.Symbol = g.oddName(fmt.Sprintf("fk_%s_%d", strings.ToLower(t.Name), k))
	}
	if f.Symbol == "" && !g.allowKnown { // two unnamed foreign keys in one desired table: known finding
		for _, o := range t.FKs {
			if o.Symbol == "" {
				f.Symbol = g.oddName(fmt.Sprintf("fk_%s_%d", strings.ToLower(t.Name), k))
			}
		}
	}
	// two foreign keys of one table with the same columns and reference are a known ambiguity of inspect
	for _, o := range t.FKs {
		if strings.Join(o.Cols, ",") == strings.Join(f.Cols, ",") && o.RefTable == f.RefTable {
			return FK{}, false
		}
	}
	return f, true
}

func (g *G) setPK(t *Table) {
	t.PK, t.AutoIncCols, t.WithoutRowID = nil, nil, false
	cols := storedCols(t)
	switch g.r.Intn(6) {
	case 0: // none
		return
	case 1, 2, 3: // single
		c := t.Cols[0].Name
		if g.r.Chance(1, 3) {
			c = g.pick(cols)
		}
		cc := t.col(c)
		cc.Null = false
		t.PK = &Idx{Parts: []Part{{Seq: 1, Col: c}}}
		if cc.Type == "integer" && g.r.Chance(1, 2) {
			t.AutoIncCols = []string{c}
			cc.Def = nil
		}
	default: // composite, one time out of three not in column order (C01-pk-order is fixed)
		if len(cols) < 2 {
			c := cols[0]
			t.col(c).Null = false
			t.PK = &Idx{Parts: []Part{{Seq: 1, Col: c}}}
			return
		}
		i := g.r.Intn(len(cols) - 1)
		j := i + 1 + g.r.Intn(len(cols)-i-1)
		a, b := cols[i], cols[j]
		if g.r.Chance(1, 3) {
			a, b = b, a
		}
		t.col(a).Null, t.col(b).Null = false, false
		t.PK = &Idx{Parts: []Part{{Seq: 1, Col: a}, {Seq: 2, Col: b}}}
	}
	if t.PK != nil && len(t.AutoIncCols) == 0 && g.r.Chance(1, 5) {
		t.WithoutRowID = true
	}
}

func (g *G) table(s *Schema, name string) Table {
	t := Table{Name: name, Strict: g.r.Chance(1, 6)}
	n := 1 + g.r.Intn(5)
	for i := 0; i < n; i++ {
		nm := g.freshCol(&t)
		if i == 0 && g.r.Chance(2, 3) {
			nm = "id"
		}
		c := g.col(nm, t.Strict)
		if nm == "id" {
			c.Type = []string{"integer", "integer", "int", "bigint", "text"}[g.r.Intn(5)]
			if t.Strict && c.Type == "bigint" {
				c.Type = "integer"
			}
			c.Def = nil
		}
		t.Cols = append(t.Cols, c)
	}
	g.setPK(&t)
	if g.r.Chance(1, 3) {
		if c, ok := g.genExpr(&t, t.Strict); ok {
			t.Cols = append(t.Cols, c)
		}
	}
	ni := g.r.Intn(3)
	for i := 0; i < ni; i++ {
		tmp := *s
		tmp.Tables = append(append([]Table(nil), s.Tables...), t)
		t.Idx = append(t.Idx, g.index(&tmp, &t))
	}
	nk := g.r.Intn(3)
	for i := 0; i < nk; i++ {
		if k, ok := g.check(&t, i); ok {
			dup := false
			for _, o := range t.Checks { // two checks with one expression: dropping one is invisible to the differ (known finding)
				dup = dup || mayWrap(o.Expr) == mayWrap(k.Expr)
			}
			if !dup || g.allowKnown {
				t.Checks = append(t.Checks, k)
			}
		}
	}
	return t
}

func (g *G) schema() Schema {
	s := Schema{Name: "main"}
	n := 1 + g.r.Intn(3)
	perm := g.r.Intn(len(tblNames))
	for i := 0; i < n; i++ {
		s.Tables = append(s.Tables, g.table(&s, tblNames[(perm+i)%len(tblNames)]))
	}
	// foreign keys once all tables exist (cycles and self references included)
	for i := range s.Tables {
		nf := g.r.Intn(3)
		for k := 0; k < nf; k++ {
			if f, ok := g.fk(&s, &s.Tables[i], k); ok {
				s.Tables[i].FKs = append(s.Tables[i].FKs, f)
			}
		}
	}
	return s
}

// ------------------------------------------------------------------ edits

type edit struct {
	kind string
	f    func(g *G, s *Schema, t *Table) bool
}

func colUsed(s *Schema, t *Table, c string) bool {
	if t.PK != nil {
		for _, p := range t.PK.Parts {
			if p.Col == c {
				return true
			}
		}
	}
	for _, i := range t.Idx {
		for _, p := range i.Parts {
			if p.Col == c || strings.Contains(p.Expr, "`"+c+"`") {
				return true
			}
		}
		if i.Pred != nil && strings.Contains(*i.Pred, "`"+c+"`") {
			return true
		}
	}
	for _, f := range t.FKs {
		if hasStr(f.Cols, c) {
			return true
		}
	}
	for _, o := range s.Tables {
		for _, f := range o.FKs {
			if f.RefTable == t.Name && hasStr(f.RefCols, c) {
				return true
			}
		}
	}
	for _, k := range t.Checks {
		if strings.Contains(k.Expr, "`"+c+"`") {
			return true
		}
	}
	for _, o := range t.Cols {
		if o.Gen != nil && strings.Contains(o.Gen.Expr, "`"+c+"`") {
			return true
		}
	}
	for _, u := range t.Uniques {
		if hasStr(u, c) {
			return true
		}
	}
	return false
}

var edits = []edit{
	{"add-col-null", func(g *G, s *Schema, t *Table) bool {
		c := g.col(g.freshCol(t), t.Strict)
		c.Null = true
		if c.Def != nil && c.Def.Raw {
			c.Def = nil
		}
		t.Cols = append(t.Cols, c)
		return true
	}},
	{"add-col-notnull-default", func(g *G, s *Schema, t *Table) bool {
		c := g.col(g.freshCol(t), t.Strict)
		c.Null = false
		for k := 0; c.Def == nil; k++ {
			if k > 20 {
				c.Type = "integer"
			}
			c.Def = g.def(c.Type)
		}
		t.Cols = append(t.Cols, c)
		return true
	}},
	{"add-col-nonconst-default", func(g *G, s *Schema, t *Table) bool { // must go through the rebuild: ALTER TABLE refuses it on a table with rows
		c := Col{Name: g.freshCol(t), Type: "integer", Null: g.r.Bool(), Def: &Def{Raw: true, V: g.pick([]string{"random()", "abs(random())", "1 + abs(-3)"})}}
		t.Cols = append(t.Cols, c)
		return true
	}},
	{"add-col-notnull-nodefault", func(g *G, s *Schema, t *Table) bool {
		c := g.col(g.freshCol(t), t.Strict)
		c.Null, c.Def = false, nil
		t.Cols = append(t.Cols, c)
		return true
	}},
	{"add-col-generated", func(g *G, s *Schema, t *Table) bool {
		c, ok := g.genExpr(t, t.Strict)
		if ok {
			t.Cols = append(t.Cols, c)
		}
		return ok
	}},
	{"add-col-indexed", func(g *G, s *Schema, t *Table) bool {
		c := g.col(g.freshCol(t), t.Strict)
		c.Null = true
		t.Cols = append(t.Cols, c)
		t.Idx = append(t.Idx, Idx{Name: g.idxName(s, t), Unique: g.r.Bool(), Parts: []Part{{Seq: 1, Col: c.Name}}})
		return true
	}},
	{"drop-col", func(g *G, s *Schema, t *Table) bool {
		for k := 0; k < 6; k++ {
			i := g.r.Intn(len(t.Cols))
			if len(storedCols(t)) <= 1 && t.Cols[i].Gen == nil {
				continue
			}
			if !colUsed(s, t, t.Cols[i].Name) {
				t.Cols = append(t.Cols[:i:i], t.Cols[i+1:]...)
				return true
			}
		}
		return false
	}},
	{"mod-col-null", func(g *G, s *Schema, t *Table) bool {
		c := &t.Cols[g.r.Intn(len(t.Cols))]
		if t.PK != nil {
			for _, p := range t.PK.Parts {
				if p.Col == c.Name {
					return false
				}
			}
		}
		c.Null = !c.Null
		return true
	}},
	{"mod-col-type", func(g *G, s *Schema, t *Table) bool {
		c := &t.Cols[g.r.Intn(len(t.Cols))]
		if hasStr(t.AutoIncCols, c.Name) || c.Gen != nil {
			return false
		}
		if t.Strict {
			c.Type = g.pick(strictTys)
		} else {
			c.Type = g.pick(typeKeys)
		}
		c.Def = g.def(c.Type)
		return true
	}},
	{"mod-col-default", func(g *G, s *Schema, t *Table) bool {
		c := &t.Cols[g.r.Intn(len(t.Cols))]
		if hasStr(t.AutoIncCols, c.Name) || c.Gen != nil {
			return false
		}
		c.Def = g.def(c.Type)
		return true
	}},
	{"mod-col-notnull-with-default", func(g *G, s *Schema, t *Table) bool { // the IFNULL arm of copyRows
		for i := range t.Cols {
			c := &t.Cols[i]
			if c.Null && c.Gen == nil {
				c.Null = false
				for k := 0; c.Def == nil && k <= 20; k++ {
					c.Def = g.def(c.Type)
				}
				if c.Def == nil { // no default of that type in this generator mode
					c.Null = true
					continue
				}
				return true
			}
		}
		return false
	}},
	{"mod-col-gen", func(g *G, s *Schema, t *Table) bool {
		for i := range t.Cols {
			c := &t.Cols[i]
			if c.Gen != nil && !colUsed(s, t, c.Name) {
				if g.r.Bool() {
					c.Gen.Expr = "(" + c.Gen.Expr + ") + 1"
				} else if strings.EqualFold(c.Gen.Type, "stored") {
					c.Gen.Type = "VIRTUAL"
				} else {
					c.Gen.Type = "STORED"
				}
				return true
			}
		}
		return false
	}},
	{"add-index", func(g *G, s *Schema, t *Table) bool {
		t.Idx = append(t.Idx, g.index(s, t))
		return true
	}},
	{"drop-index", func(g *G, s *Schema, t *Table) bool {
		if len(t.Idx) == 0 {
			return false
		}
		i := g.r.Intn(len(t.Idx))
		t.Idx = append(t.Idx[:i:i], t.Idx[i+1:]...)
		return true
	}},
	{"mod-index", func(g *G, s *Schema, t *Table) bool {
		if len(t.Idx) == 0 {
			return false
		}
		i := &t.Idx[g.r.Intn(len(t.Idx))]
		switch g.r.Intn(4) {
		case 0:
			i.Unique = !i.Unique
		case 1:
			i.Parts = g.parts(t, true)
		case 2:
			i.Parts[0].Desc = !i.Parts[0].Desc
		default:
			if i.Pred == nil {
				i.Pred = sp(fmt.Sprintf("`%s` IS NOT NULL", g.pick(storedCols(t))))
			} else {
				i.Pred = nil
			}
		}
		return true
	}},
	{"add-fk", func(g *G, s *Schema, t *Table) bool {
		f, ok := g.fk(s, t, 5+g.r.Intn(4))
		if ok {
			for _, o := range t.FKs {
				if o.Symbol == f.Symbol && f.Symbol != "" {
					return false
				}
			}
			t.FKs = append(t.FKs, f)
		}
		return ok
	}},
	{"drop-fk", func(g *G, s *Schema, t *Table) bool {
		if len(t.FKs) == 0 {
			return false
		}
		i := g.r.Intn(len(t.FKs))
		t.FKs = append(t.FKs[:i:i], t.FKs[i+1:]...)
		return true
	}},
	{"mod-fk-action", func(g *G, s *Schema, t *Table) bool {
		if len(t.FKs) == 0 {
			return false
		}
		f := &t.FKs[g.r.Intn(len(t.FKs))]
		if g.r.Bool() {
			f.OnDelete = g.pick(actions)
		} else {
			f.OnUpdate = g.pick(actions)
		}
		return true
	}},
	{"add-check", func(g *G, s *Schema, t *Table) bool {
		k, ok := g.check(t, 5+g.r.Intn(4))
		if ok {
			for _, o := range t.Checks {
				if o.Name == k.Name && k.Name != "" || mayWrap(o.Expr) == mayWrap(k.Expr) {
					return false
				}
			}
			t.Checks = append(t.Checks, k)
		}
		return ok
	}},
	{"drop-check", func(g *G, s *Schema, t *Table) bool {
		if len(t.Checks) == 0 {
			return false
		}
		i := g.r.Intn(len(t.Checks))
		t.Checks = append(t.Checks[:i:i], t.Checks[i+1:]...)
		return true
	}},
	{"mod-check", func(g *G, s *Schema, t *Table) bool {
		if len(t.Checks) == 0 {
			return false
		}
		k := &t.Checks[g.r.Intn(len(t.Checks))]
		k.Expr = "(" + k.Expr + ") OR 1 = 1"
		for i := range t.Checks {
			if &t.Checks[i] != k && mayWrap(t.Checks[i].Expr) == mayWrap(k.Expr) {
				k.Expr = "(" + k.Expr + ") OR 2 = 2"
			}
		}
		return true
	}},
	{"change-pk", func(g *G, s *Schema, t *Table) bool {
		for _, o := range s.Tables { // keep referenced keys
			for _, f := range o.FKs {
				if f.RefTable == t.Name {
					return false
				}
			}
		}
		if len(t.AutoIncCols) > 0 && !g.allowKnown { // AUTOINCREMENT changes are invisible to the differ (known finding)
			return false
		}
		g.setPK(t)
		if len(t.AutoIncCols) > 0 && !g.allowKnown {
			t.AutoIncCols = nil
		}
		return true
	}},
	{"toggle-without-rowid", func(g *G, s *Schema, t *Table) bool {
		if t.PK == nil || len(t.AutoIncCols) > 0 {
			return false
		}
		t.WithoutRowID = !t.WithoutRowID
		return true
	}},
	{"toggle-strict", func(g *G, s *Schema, t *Table) bool {
		if t.Strict {
			t.Strict = false
			return true
		}
		for _, c := range t.Cols {
			if !hasStr(strictTys, c.Type) {
				return false
			}
		}
		t.Strict = true
		return true
	}},
}

// mutate applies n edits; with mix they all hit one table.  Returns the kinds applied.
func (g *G) mutate(s *Schema, n int, mix bool) []string {
	var kinds []string
	ti := g.r.Intn(len(s.Tables))
	for k := 0; k < n; k++ {
		if !mix {
			ti = g.r.Intn(len(s.Tables))
		}
		switch g.r.Intn(14) {
		case 0: // add a table
			nm := g.pick(tblNames)
			if s.table(nm) == nil && !nameUsed(s, nm) {
				t := g.table(s, nm)
				s.Tables = append(s.Tables, t)
				if f, ok := g.fk(s, &s.Tables[len(s.Tables)-1], 0); ok && g.r.Bool() {
					s.Tables[len(s.Tables)-1].FKs = append(s.Tables[len(s.Tables)-1].FKs, f)
				}
				kinds = append(kinds, "add-table")
			}
			continue
		case 1: // drop a table nobody references
			if len(s.Tables) > 1 {
				i := g.r.Intn(len(s.Tables))
				ref := false
				for j, o := range s.Tables {
					for _, f := range o.FKs {
						if j != i && f.RefTable == s.Tables[i].Name {
							ref = true
						}
					}
				}
				if !ref && !(mix && i == ti) {
					s.Tables = append(s.Tables[:i:i], s.Tables[i+1:]...)
					if ti >= len(s.Tables) {
						ti = len(s.Tables) - 1
					} else if i < ti {
						ti--
					}
					kinds = append(kinds, "drop-table")
				}
			}
			continue
		}
		for try := 0; try < 8; try++ {
			e := edits[g.r.Intn(len(edits))]
			if e.f(g, s, &s.Tables[ti]) {
				kinds = append(kinds, e.kind)
				break
			}
		}
	}
	return kinds
}

// pair returns a current/desired pair and a short description; unless allowKnown, a pair in one of
// the input classes of the open known findings is drawn again.
func (g *G) pair() (Schema, Schema, string) {
	for try := 0; ; try++ {
		a, b, d := g.pair1()
		if g.allowKnown || try > 30 || classify(a, b) == "none" {
			return a, b, d
		}
	}
}

func (g *G) pair1() (Schema, Schema, string) {
	a := g.schema()
	switch g.r.Intn(10) {
	case 0: // unrelated
		b := g.schema()
		return a, b, "unrelated"
	case 1: // identical
		return a, a.clone(), "same"
	case 2: // from nothing
		return Schema{Name: "main"}, a, "create"
	}
	b := a.clone()
	n := 1 + g.r.Intn(5)
	mix := g.r.Chance(3, 5)
	kinds := g.mutate(&b, n, mix)
	d := strings.Join(kinds, "+")
	if mix {
		d = "mix:" + d
	}
	return a, b, d
}

// inline UNIQUE constraints for a "current" schema created by foreign SQL; the desired schema keeps
// them, two times out of three, as the unique index Atlas would have created (<table>_<col>); otherwise
// the constraint has to go (a table rebuild since the fix of C01-drop-inline-unique)
func (g *G) addUniques(s, b *Schema) bool {
	done := false
	for i := range s.Tables {
		t := &s.Tables[i]
		if g.r.Chance(1, 2) {
			cols := storedCols(t)
			c := g.pick(cols)
			if t.PK != nil && len(t.PK.Parts) == 1 && t.PK.Parts[0].Col == c {
				continue
			}
			if nameUsed(s, t.Name+"_"+c) || nameUsed(b, t.Name+"_"+c) {
				continue
			}
			t.Uniques = append(t.Uniques, []string{c})
			done = true
			if bt := b.table(t.Name); bt != nil && bt.hasCol(c) && g.r.Chance(2, 3) { // otherwise the constraint is dropped: a rebuild
				bt.Idx = append(bt.Idx, Idx{Name: t.Name + "_" + c, Unique: true, Parts: []Part{{Seq: 1, Col: c}}})
			}
		}
	}
	return done
}
