// An oracle that does not go through the differ: the inspected state after a successful, converged
// apply must equal (on a projection that ignores order, type spelling and constraint numbering) the
// inspected state of a database on which the desired schema was created from scratch with the
// harness' own DDL.  It catches changes the differ is blind to (then "converged" means nothing).
package main

import (
	"fmt"
	"sort"
	"strconv"
	"strings"

	"ariga.io/atlas/sql/schema"
	"ariga.io/atlas/sql/sqlite"
)

func unq1(s string) string {
	if len(s) >= 2 && (s[0] == '\'' && s[len(s)-1] == '\'' || s[0] == '"' && s[len(s)-1] == '"') {
		return strings.ReplaceAll(s[1:len(s)-1], "''", "'")
	}
	return s
}

func act(a schema.ReferenceOption) string {
	if a == "" {
		return "NO ACTION"
	}
	return string(a)
}

// stateProj: one line per table, everything sorted.
func stateProj(s *schema.Schema) []string {
	var out []string
	for _, t := range s.Tables {
		var cols, idxs, fks, cks []string
		for _, c := range t.Columns {
			d := "-"
			switch x := c.Default.(type) {
			case *schema.Literal:
				d = x.V // the stored text itself: a quoted and an unquoted literal differ in type
			case *schema.RawExpr:
				d = x.X
			}
			g := "-"
			var gx schema.GeneratedExpr
			if hasAttr(c.Attrs, &gx) {
				g = mayWrap(gx.Expr) + "/" + strings.ToUpper(gx.Type)
			}
			cls := 0
			if c.Type != nil && c.Type.Type != nil {
				cls = sqliteClass[typeOf(c.Type.Type)]
			}
			cols = append(cols, fmt.Sprintf("%s:%d:%v:%s:%s:%v", c.Name, cls, c.Type.Null, d, g, hasAttr(c.Attrs, &sqlite.AutoIncrement{})))
		}
		sort.Strings(cols)
		pk := "-"
		if t.PrimaryKey != nil {
			var ps []string
			for _, p := range t.PrimaryKey.Parts {
				if p.C != nil {
					ps = append(ps, p.C.Name)
				}
			}
			pk = strings.Join(ps, ",")
		}
		for _, i := range t.Indexes {
			var ps []string
			for _, p := range i.Parts {
				s := ""
				if p.C != nil {
					s = p.C.Name
				} else if x, ok := p.X.(*schema.RawExpr); ok {
					s = mayWrap(x.X)
				}
				if p.Desc {
					s += " DESC"
				}
				ps = append(ps, s)
			}
			var pr sqlite.IndexPredicate
			hasAttr(i.Attrs, &pr)
			name := i.Name
			if strings.HasPrefix(name, "sqlite_autoindex") { // an inline UNIQUE constraint = the unique index <table>_<cols> Atlas creates for it
				name = t.Name + "_" + strings.Join(ps, "_")
			}
			idxs = append(idxs, fmt.Sprintf("%s:%v:[%s]:%s", name, i.Unique, strings.Join(ps, ","), pr.P))
		}
		sort.Strings(idxs)
		for _, f := range t.ForeignKeys {
			var cs, rs []string
			for _, c := range f.Columns {
				cs = append(cs, c.Name)
			}
			for _, c := range f.RefColumns {
				rs = append(rs, c.Name)
			}
			sym := f.Symbol
			if _, err := strconv.Atoi(sym); err == nil {
				sym = "" // an id of pragma_foreign_key_list, not a name
			}
			fks = append(fks, fmt.Sprintf("%s(%s)->%s(%s):%s:%s", sym, strings.Join(cs, ","), f.RefTable.Name, strings.Join(rs, ","), act(f.OnUpdate), act(f.OnDelete)))
		}
		sort.Strings(fks)
		for _, a := range t.Attrs {
			if k, ok := a.(*schema.Check); ok {
				cks = append(cks, k.Name+":"+k.Expr)
			}
		}
		sort.Strings(cks)
		out = append(out, fmt.Sprintf("%s wr=%v strict=%v cols{%s} pk{%s} idx{%s} fks{%s} checks{%s}", t.Name,
			hasAttr(t.Attrs, &sqlite.WithoutRowID{}), hasAttr(t.Attrs, &sqlite.Strict{}),
			strings.Join(cols, " "), pk, strings.Join(idxs, " "), strings.Join(fks, " "), strings.Join(cks, " ")))
	}
	sort.Strings(out)
	return out
}

// freshState: the projection of the desired schema created from scratch (nil when it is not valid SQLite).
func freshState(b Schema) []string {
	l, err := openDB("", false, false)
	if err != nil {
		return nil
	}
	defer l.Close()
	for _, st := range rawSchema(b) {
		if err := l.exec(st); err != nil {
			return nil
		}
	}
	s, err := l.inspect()
	if err != nil {
		return nil
	}
	return stateProj(s)
}

func firstDiff(a, b []string) string {
	for i := 0; i < len(a) || i < len(b); i++ {
		var x, y string
		if i < len(a) {
			x = a[i]
		}
		if i < len(b) {
			y = b[i]
		}
		if x != y {
			return fmt.Sprintf("after-apply: %s | created-from-scratch: %s", trunc(x, 400), trunc(y, 400))
		}
	}
	return ""
}
