// The family of small foreign-key graphs for DROP TABLE under `foreign_keys = on` (mode updown: the schema is
// created from nothing by Atlas' plan, then the reverse statements -- DROP INDEX / DROP TABLE in reverse
// creation order -- run on the real engine and on the model).  With enforcement on, DROP TABLE compiles the
// action programs of the keys that reference the table and, recursively, of the statements inside them; a
// nested statement whose table has a key to a table that is already gone fails with "no such table"
// (EngineModel.drop_blocked).  The family makes every such chain short enough to enumerate:
//
//	three tables ta, tb, tc (id PRIMARY KEY, v nullable), created in any of the 6 orders;
//	2-4 foreign keys, each from column id or v of one table to the key of any table (self references
//	included), with one of 7 (ON DELETE, ON UPDATE) pairs.
//
// After the first drop every key to the dropped table dangles, so the second and third drop meet missing
// parents directly (child), through one action (grandchild) and through ON DELETE -> ON UPDATE chains.
package main

import "fmt"

var dropActs = [][2]string{ // ON DELETE, ON UPDATE
	{"", ""}, {"CASCADE", "CASCADE"}, {"SET NULL", ""}, {"SET DEFAULT", "CASCADE"}, {"RESTRICT", "SET NULL"}, {"", "CASCADE"}, {"CASCADE", "SET DEFAULT"},
}

var dropPerms = [][3]int{{0, 1, 2}, {0, 2, 1}, {1, 0, 2}, {1, 2, 0}, {2, 0, 1}, {2, 1, 0}}

type dropEdge struct {
	child  int
	col    string
	parent int
	act    int
}

func dropGraph(edges []dropEdge, perm [3]int) Schema {
	names := []string{"ta", "tb", "tc"}
	types := []string{"integer", "int", "int"}
	tabs := make([]Table, 3)
	for i := range tabs {
		tabs[i] = Table{Name: names[i], Cols: []Col{{Name: "id", Type: types[i]}, {Name: "v", Type: "int", Null: true}}, PK: &Idx{Parts: []Part{{Seq: 1, Col: "id"}}}}
	}
	for k, e := range edges {
		tabs[e.child].FKs = append(tabs[e.child].FKs, FK{Symbol: fmt.Sprintf("fk%d", k), Cols: []string{e.col}, RefTable: names[e.parent], RefCols: []string{"id"},
			OnDelete: dropActs[e.act][0], OnUpdate: dropActs[e.act][1]})
	}
	s := Schema{Name: "main"}
	for _, i := range perm {
		s.Tables = append(s.Tables, tabs[i])
	}
	return s
}

func (e dropEdge) String() string {
	return fmt.Sprintf("%c.%s>%c/%d", 'a'+e.child, e.col, 'a'+e.parent, e.act)
}

// dropFamily: the hand-written chain of C17's thorough case e-07225 in every creation order, then n random
// members of the family
func (c *ctx) dropFamily(n int) []fkCase {
	var out []fkCase
	add := func(edges []dropEdge, perm [3]int) {
		d := "dropgrid:"
		for _, e := range edges {
			d += e.String() + ","
		}
		out = append(out, fkCase{a: Schema{Name: "main"}, b: dropGraph(edges, perm), desc: fmt.Sprintf("%s order=%v", d, perm)})
	}
	// ta.v -> tb (ON UPDATE CASCADE), ta.v -> tc (RESTRICT), tb.id -> ta (SET NULL / SET DEFAULT), tb.id -> tb (ON DELETE SET DEFAULT):
	// DROP tc; DROP tb = DELETE tb -> UPDATE tb SET id -> UPDATE ta SET v -> ta.v also references tc: gone
	hand := []dropEdge{{0, "v", 1, 5}, {0, "v", 2, 4}, {1, "id", 0, 2}, {1, "id", 1, 3}}
	for _, p := range dropPerms {
		add(hand, p)
	}
	for i := 0; i < n; i++ {
		k := 2 + c.r.Intn(3)
		var edges []dropEdge
		seen := map[string]bool{}
		perm := dropPerms[c.r.Intn(6)]
		if i%2 == 1 {
			// chain-biased half: W is dropped first, X second; a key of Y references X, a key of Z references Y on the
			// column the first action rewrites (or cascades the delete), and the same column of Z references W
			w, x, r := perm[2], perm[1], perm[0]
			pick := func() int { return []int{x, r}[c.r.Intn(2)] }
			act := func() int {
				if c.r.Chance(2, 3) {
					return []int{1, 2, 3, 5, 6}[c.r.Intn(5)]
				}
				return c.r.Intn(len(dropActs))
			}
			y, z := pick(), pick()
			ycol, zcol := "id", []string{"id", "v"}[c.r.Intn(2)]
			if c.r.Chance(1, 4) {
				ycol = "v"
			}
			for _, e := range []dropEdge{{y, ycol, x, act()}, {z, zcol, y, act()}, {z, zcol, w, act()}} {
				key := fmt.Sprint(e.child, e.col, e.parent)
				if !seen[key] {
					seen[key] = true
					edges = append(edges, e)
				}
			}
			k = len(edges) + c.r.Intn(2)
		}
		for len(edges) < k {
			e := dropEdge{child: c.r.Intn(3), col: []string{"id", "v"}[c.r.Intn(2)], parent: c.r.Intn(3), act: c.r.Intn(len(dropActs))}
			key := fmt.Sprint(e.child, e.col, e.parent)
			if seen[key] {
				continue
			}
			seen[key] = true
			edges = append(edges, e)
		}
		add(edges, perm)
	}
	return out
}
