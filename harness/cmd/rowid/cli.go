// CLI stage: the loop of the property through the real binary ($ATLAS_BIN):
//
//	atlas schema apply --auto-approve -u sqlite://<file> --to file://schema.hcl [--dev-url ...]
//	atlas schema diff --from sqlite://<file> --to file://schema.hcl --dev-url ...   => "Schemas are synced"
//
// The current database is created with the harness' own DDL through an independent client; the
// desired schema is written with sqlite.MarshalHCL.
package main

import (
	"fmt"
	"os"
	"path/filepath"
	"strings"

	"ariga.io/atlas/sql/sqlite"

	"verifharness/internal/clirun"
)

func (c *ctx) cliCase(a, b Schema, desc string, devURL bool) {
	id := c.id("c")
	dir, err := os.MkdirTemp(c.dir, "cli")
	if err != nil {
		panic(err)
	}
	defer os.RemoveAll(dir)
	// all foreign keys named (an HCL block needs its label)
	for ti := range b.Tables {
		for fi := range b.Tables[ti].FKs {
			if b.Tables[ti].FKs[fi].Symbol == "" {
				b.Tables[ti].FKs[fi].Symbol = fmt.Sprintf("fk_%s_u%d", strings.ToLower(b.Tables[ti].Name), fi)
			}
		}
	}
	hcl, err := sqlite.MarshalHCL(build("sqlite", b))
	if err != nil {
		c.w.Count("cli.marshal-error")
		c.w.ImplOnly(id, desc)
		return
	}
	if err := os.WriteFile(filepath.Join(dir, "schema.hcl"), hcl, 0o644); err != nil {
		panic(err)
	}
	dbPath := filepath.Join(dir, "live.db")
	if err := clirun.Exec(dbPath, append([]string{"PRAGMA user_version = 1"}, rawSchema(a)...)...); err != nil {
		c.w.Count("cli.setup-error")
		c.w.ImplOnly(id, desc)
		return
	}
	ic := "input-class=" + classify(a, b) + "; "
	dev := "sqlite://dev?mode=memory"
	args := []string{"schema", "apply", "--auto-approve", "-u", "sqlite://" + dbPath, "--to", "file://schema.hcl"}
	if devURL {
		args = append(args, "--dev-url", dev)
	}
	r := clirun.Run(dir, nil, args...)
	c.w.ImplOnly(id, desc)
	c.w.Count("cli.kind=" + strings.SplitN(strings.SplitN(desc, ":", 2)[0], "+", 2)[0])
	if r.Exit != 0 {
		c.w.Count("cli.apply-exit-nonzero")
		if validSQLite(b) == nil {
			c.w.Violation(id, "cli-apply-failed", ic+fmt.Sprintf("`atlas schema apply --auto-approve` (dev-url=%v) exits %d on an empty database although the desired schema is valid SQLite: %s [%s]", devURL, r.Exit, lastLine(r.Stderr+r.Stdout), desc))
		}
		return
	}
	d := clirun.Run(dir, nil, "schema", "diff", "--from", "sqlite://"+dbPath, "--to", "file://schema.hcl", "--dev-url", dev)
	if d.Exit != 0 || !strings.Contains(d.Stdout, "Schemas are synced") {
		c.w.Violation(id, "cli-not-synced", ic+fmt.Sprintf("after a successful `schema apply --auto-approve` (dev-url=%v) `schema diff` prints %q (exit %d) instead of \"Schemas are synced\" [%s]", devURL, trunc(strings.TrimSpace(d.Stdout+d.Stderr), 300), d.Exit, desc))
		return
	}
	c.w.Count("cli.synced")
	if !strings.Contains(r.Stdout, "Schema is synced") {
		c.w.NonTrivial(desc + "|" + fmt.Sprint(len(r.Stdout)))
	}
}

// cliCaseSQL: the desired state is an SQL file (the harness' DDL: unnamed foreign keys stay unnamed), read by
// Atlas through the dev database -- `--to file://schema.sql --dev-url sqlite://dev?mode=memory`
func (c *ctx) cliCaseSQL(a, b Schema, desc string) {
	id := c.id("c")
	dir, err := os.MkdirTemp(c.dir, "clisql")
	if err != nil {
		panic(err)
	}
	defer os.RemoveAll(dir)
	if err := os.WriteFile(filepath.Join(dir, "schema.sql"), []byte(strings.Join(rawSchema(b), ";\n")+";\n"), 0o644); err != nil {
		panic(err)
	}
	dbPath := filepath.Join(dir, "live.db")
	if err := clirun.Exec(dbPath, append([]string{"PRAGMA user_version = 1"}, rawSchema(a)...)...); err != nil {
		c.w.Count("cli.setup-error")
		c.w.ImplOnly(id, desc)
		return
	}
	ic := "input-class=" + classifyFor(a, b, true) + "; "
	dev := "sqlite://dev?mode=memory"
	r := clirun.Run(dir, nil, "schema", "apply", "--auto-approve", "-u", "sqlite://"+dbPath, "--to", "file://schema.sql", "--dev-url", dev)
	c.w.ImplOnly(id, desc)
	c.w.Count("cli.kind=sqlfile")
	if r.Exit != 0 {
		c.w.Count("cli.apply-exit-nonzero")
		if validSQLite(b) == nil {
			c.w.Violation(id, "cli-apply-failed", ic+fmt.Sprintf("`atlas schema apply --auto-approve --to file://schema.sql --dev-url` exits %d on an empty database although the desired schema is valid SQLite: %s [%s]", r.Exit, lastLine(r.Stderr+r.Stdout), desc))
		}
		return
	}
	d := clirun.Run(dir, nil, "schema", "diff", "--from", "sqlite://"+dbPath, "--to", "file://schema.sql", "--dev-url", dev)
	if d.Exit != 0 || !strings.Contains(d.Stdout, "Schemas are synced") {
		c.w.Violation(id, "cli-not-synced", ic+fmt.Sprintf("after a successful `schema apply --auto-approve --to file://schema.sql` `schema diff` prints %q (exit %d) instead of \"Schemas are synced\" [%s]", trunc(strings.TrimSpace(d.Stdout+d.Stderr), 300), d.Exit, desc))
		return
	}
	// a second apply must have nothing to do
	r2 := clirun.Run(dir, nil, "schema", "apply", "--auto-approve", "-u", "sqlite://"+dbPath, "--to", "file://schema.sql", "--dev-url", dev)
	if r2.Exit != 0 || !strings.Contains(r2.Stdout, "Schema is synced") {
		c.w.Violation(id, "cli-second-apply", ic+fmt.Sprintf("the second `schema apply` is not a no-op: %q (exit %d) [%s]", trunc(strings.TrimSpace(r2.Stdout+r2.Stderr), 300), r2.Exit, desc))
		return
	}
	c.w.Count("cli.synced")
	if !strings.Contains(r.Stdout, "Schema is synced") {
		c.w.NonTrivial(desc + "|" + fmt.Sprint(len(r.Stdout)))
	}
}

func lastLine(s string) string {
	l := strings.Split(strings.TrimSpace(s), "\n")
	for _, x := range l { // the CLI's own error line, when there is one
		if strings.HasPrefix(x, "Error:") {
			return trunc(x, 300)
		}
	}
	return trunc(l[len(l)-1], 300)
}

func trunc(s string, n int) string {
	if len(s) > n {
		return s[:n] + "..."
	}
	return s
}

func runCLI(c *ctx) {
	c.w.Rule = "a case is non-trivial when `schema apply` had something to apply (its output is not 'Schema is synced'); distinct by the edit kinds and output size"
	if _, err := os.Stat(clirun.Bin()); err != nil {
		fmt.Fprintln(os.Stderr, "ATLAS_BIN not found:", clirun.Bin())
		os.Exit(2)
	}
	n := 60
	if c.thorough {
		n = 1500
	}
	for i := 0; i < n; i++ {
		a, b, d := c.g.pair()
		c.cliCase(a, b, d, i%2 == 0)
	}
	// desired state from an SQL file: unnamed foreign keys reach the differ with SQLite's numeric symbols
	step := 12
	if c.thorough {
		step = 1
	}
	for i, fc := range fkGrid(c.thorough) {
		if i%step == 0 && !strings.HasSuffix(fc.desc, ":rename") {
			c.cliCaseSQL(fc.a, fc.b, fc.desc)
		}
	}
	// constraint / index names outside \w+ on every named object: HCL and SQL-file desired states
	og := &G{r: c.r, odd: true}
	no := 18
	if c.thorough {
		no = 400
	}
	for i := 0; i < no; i++ {
		a, b, d := og.pair()
		if i%3 == 2 {
			c.cliCaseSQL(a, b, "odd-names:"+d)
		} else {
			c.cliCase(a, b, "odd-names:"+d, i%2 == 0)
		}
	}
	// populated databases whose rows decide whether the apply can be committed (cliorphan.go)
	rounds := 3 // one per key style of the child table
	if c.thorough {
		rounds = 30
	}
	for i := 0; i < rounds; i++ {
		for _, sc := range c.orphanScenarios(i % 3) {
			c.cliOrphanCase(sc)
		}
	}
}
