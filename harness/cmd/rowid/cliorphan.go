// CLI stage, second half: `schema apply` that cannot finish must not report success.
//
// Populated databases whose rows decide whether the apply can be committed:
//
//	add-fk-orphans      a foreign key is added over rows that violate it; with `_fk=1` in the URL and the default
//	                    --tx-mode file, sqlite.OpenTx's commit-time foreign_key_check refuses (new violations)
//	add-fk-clean        the same without an orphan row: must succeed in every mode
//	keep-violation-*    the key and its orphan row exist already, another edit rebuilds / alters the table: the
//	                    violation is old, the commit goes through
//	notnull-over-nulls  a plan that fails in the middle (INSERT ... SELECT hits NOT NULL): rolled back under --tx-mode file
//
// every scenario runs with {_fk=1, no parameter} x {--tx-mode file, --tx-mode none} on a fresh copy of the file.
// Oracle (judged on the real binary and an independent client):
//
//	exit 0  => `schema diff` prints "Schemas are synced" and a second `schema apply` is a no-op; with _fk=1 under
//	           --tx-mode file the committed database has no foreign-key violation that was not there before
//	exit !0 => under --tx-mode file the logical dump of the database (schema objects + all rows) is unchanged
//	scenarios that cannot fail (no new violation, no row error) must exit 0
package main

import (
	"fmt"
	"os"
	"path/filepath"
	"sort"
	"strings"

	"verifharness/internal/clirun"
)

type orphanScenario struct {
	kind     string
	setup    []string // current schema + rows (run with foreign_keys off)
	desired  []string
	mustPass bool // no mode may fail
	worowidV bool // a WITHOUT ROWID child table holds (or will hold) a row that foreign_key_check reports: known finding C01-fk-check-without-rowid
	mayFail  func(fk bool, tx string) bool
}

func (c *ctx) orphanScenarios(key int) []orphanScenario {
	r := c.r
	pn := []string{"p", "parent", "accounts"}[r.Intn(3)]
	cn := []string{"c", "child", "orders"}[r.Intn(3)]
	act := []string{"", " ON DELETE CASCADE", " ON DELETE SET NULL", " ON UPDATE CASCADE ON DELETE RESTRICT"}[r.Intn(4)]
	// key: 0 = integer primary key (rowid alias), 1 = no key, 2 = WITHOUT ROWID
	parent := fmt.Sprintf("CREATE TABLE `%s` (`id` integer NOT NULL, `name` text NULL, PRIMARY KEY (`id`))", pn)
	child := func(fk bool, vdef string, extra string) string {
		idNull, pk, opt := "NOT NULL", ", PRIMARY KEY (`id`)", ""
		switch key {
		case 1:
			idNull, pk = "NULL", ""
		case 2:
			opt = " WITHOUT ROWID"
		}
		s := fmt.Sprintf("CREATE TABLE `%s` (`id` integer %s, `pid` integer NULL, `v` text %s%s%s", cn, idNull, vdef, extra, pk)
		if fk {
			s += fmt.Sprintf(", CONSTRAINT `fk_%s_%s` FOREIGN KEY (`pid`) REFERENCES `%s` (`id`)%s", cn, pn, pn, act)
		}
		return s + ")" + opt
	}
	rowsP := []string{fmt.Sprintf("INSERT INTO `%s` (`id`, `name`) VALUES (1, 'one'), (2, 'two')", pn)}
	orphans := 1 + r.Intn(3)
	rowsC := func(withOrphans, nullV bool) []string {
		out := []string{fmt.Sprintf("INSERT INTO `%s` (`id`, `pid`, `v`) VALUES (1, 1, 'a'), (2, NULL, 'b'), (3, 2, 'c')", cn)}
		if withOrphans {
			for i := 0; i < orphans; i++ {
				out = append(out, fmt.Sprintf("INSERT INTO `%s` (`id`, `pid`, `v`) VALUES (%d, %d, 'o%d')", cn, 10+i, 90+i, i))
			}
		}
		if nullV {
			out = append(out, fmt.Sprintf("INSERT INTO `%s` (`id`, `pid`, `v`) VALUES (50, 1, NULL)", cn))
		}
		return out
	}
	cat := func(l ...[]string) []string {
		var out []string
		for _, x := range l {
			out = append(out, x...)
		}
		return out
	}
	onlyFKTx := func(fk bool, tx string) bool { return fk && tx == "file" }
	wv := key == 2
	parent2 := fmt.Sprintf("CREATE TABLE `%s` (`id` integer NOT NULL, `name` text NULL, `added` integer NULL, PRIMARY KEY (`id`))", pn)
	return []orphanScenario{
		{kind: "add-fk-orphans", worowidV: wv, setup: cat([]string{parent, child(false, "NULL", "")}, rowsP, rowsC(true, false)),
			desired: []string{parent, child(true, "NULL", "")}, mayFail: onlyFKTx},
		{kind: "add-fk-orphans+alter-parent", worowidV: wv, setup: cat([]string{parent, child(false, "NULL", "")}, rowsP, rowsC(true, false)),
			desired: []string{parent2, child(true, "NULL", "")}, mayFail: onlyFKTx},
		{kind: "add-fk-clean", setup: cat([]string{parent, child(false, "NULL", "")}, rowsP, rowsC(false, false)),
			desired: []string{parent, child(true, "NULL", "")}, mustPass: true},
		{kind: "keep-violation-rebuild", worowidV: wv, setup: cat([]string{parent, child(true, "NULL", "")}, rowsP, rowsC(true, false)),
			desired: []string{parent, child(true, "NOT NULL DEFAULT 'x'", "")}, mustPass: true},
		{kind: "keep-violation-alter", worowidV: wv, setup: cat([]string{parent, child(true, "NULL", "")}, rowsP, rowsC(true, false)),
			desired: []string{parent, child(true, "NULL", ""), fmt.Sprintf("CREATE INDEX `ix_%s_v` ON `%s` (`v`)", cn, cn)}, mustPass: true},
		{kind: "notnull-over-nulls", setup: cat([]string{parent, child(false, "NULL", "")}, rowsP, rowsC(false, true)),
			desired: []string{parent2, child(false, "NOT NULL", "")}, mayFail: func(bool, string) bool { return true }},
	}
}

func fkViolations(dbPath string) map[string]int {
	rows, err := clirun.Query(dbPath, "PRAGMA foreign_key_check")
	m := map[string]int{}
	if err != nil {
		m["<error: "+err.Error()+">"]++
		return m
	}
	for _, r := range rows {
		f := strings.Split(r, "|") // table | rowid | parent | fkid
		k := f[0]
		if len(f) >= 3 {
			k += "->" + f[2]
		}
		m[k]++
	}
	return m
}

func copyFile(from, to string) {
	b, err := os.ReadFile(from)
	if err != nil {
		panic(err)
	}
	if err := os.WriteFile(to, b, 0o644); err != nil {
		panic(err)
	}
}

func (c *ctx) cliOrphanCase(sc orphanScenario) {
	dir, err := os.MkdirTemp(c.dir, "cliorph")
	if err != nil {
		panic(err)
	}
	defer os.RemoveAll(dir)
	if err := os.WriteFile(filepath.Join(dir, "schema.sql"), []byte(strings.Join(sc.desired, ";\n")+";\n"), 0o644); err != nil {
		panic(err)
	}
	seed := filepath.Join(dir, "seed.db")
	if err := clirun.Exec(seed, append([]string{"PRAGMA foreign_keys = off"}, sc.setup...)...); err != nil {
		panic(fmt.Sprintf("harness: orphan scenario setup: %v", err))
	}
	dev := "sqlite://dev?mode=memory"
	for _, fk := range []bool{true, false} {
		for _, tx := range []string{"file", "none"} {
			id := c.id("c")
			desc := fmt.Sprintf("rows:%s fk=%v tx-mode=%s", sc.kind, fk, tx)
			dbPath := filepath.Join(dir, fmt.Sprintf("live-%v-%s.db", fk, tx))
			copyFile(seed, dbPath)
			before, err := clirun.Dump(dbPath, false)
			if err != nil {
				panic(err)
			}
			vBefore := fkViolations(dbPath)
			url := "sqlite://" + dbPath
			if fk {
				url += "?_fk=1"
			}
			r := clirun.Run(dir, nil, "schema", "apply", "--auto-approve", "-u", url, "--to", "file://schema.sql", "--dev-url", dev, "--tx-mode", tx)
			c.w.ImplOnly(id, desc)
			c.w.Count("cli.kind=rows:" + sc.kind)
			c.w.NonTrivial(desc)
			after, err := clirun.Dump(dbPath, false)
			if err != nil {
				panic(err)
			}
			ic := "input-class=none; "
			if sc.worowidV && fk && tx == "file" {
				ic = "input-class=worowid-fk-violation; "
			}
			info := fmt.Sprintf("[%s; current={%s} desired={%s}]", desc, trunc(strings.Join(sc.setup, "; "), 700), trunc(strings.Join(sc.desired, "; "), 500))
			if r.Exit != 0 {
				c.w.Count("cli.rows-exit-nonzero")
				if sc.mustPass || (sc.mayFail != nil && !sc.mayFail(fk, tx)) {
					c.w.Violation(id, "cli-apply-failed", ic+fmt.Sprintf("`atlas schema apply --auto-approve --tx-mode %s` exits %d although neither a new foreign-key violation nor a row error stands in the way: %s %s", tx, r.Exit, lastLine(r.Stderr+r.Stdout), info))
				}
				if tx == "file" && after != before {
					c.w.Violation(id, "cli-failed-apply-changed-db", ic+fmt.Sprintf("`atlas schema apply --auto-approve --tx-mode file` exits %d (%s) but the database is not what it was before: %s %s", r.Exit, lastLine(r.Stderr+r.Stdout), dumpDiff(before, after), info))
				}
				continue
			}
			c.w.Count("cli.rows-exit-zero")
			d := clirun.Run(dir, nil, "schema", "diff", "--from", "sqlite://"+dbPath, "--to", "file://schema.sql", "--dev-url", dev)
			if d.Exit != 0 || !strings.Contains(d.Stdout, "Schemas are synced") {
				c.w.Violation(id, "cli-not-synced", ic+fmt.Sprintf("`schema apply --auto-approve --tx-mode %s` exits 0 (%q) but `schema diff` prints %q (exit %d) instead of \"Schemas are synced\" %s", tx, trunc(lastLine(r.Stdout), 120), trunc(strings.TrimSpace(d.Stdout+d.Stderr), 300), d.Exit, info))
				continue
			}
			r2 := clirun.Run(dir, nil, "schema", "apply", "--auto-approve", "-u", url, "--to", "file://schema.sql", "--dev-url", dev, "--tx-mode", tx)
			if r2.Exit != 0 || !strings.Contains(r2.Stdout, "Schema is synced") {
				c.w.Violation(id, "cli-second-apply", ic+fmt.Sprintf("the second `schema apply` is not a no-op: %q (exit %d) %s", trunc(strings.TrimSpace(r2.Stdout+r2.Stderr), 300), r2.Exit, info))
				continue
			}
			if fk && tx == "file" {
				vAfter := fkViolations(dbPath)
				var worse []string
				for k, n := range vAfter {
					if n > vBefore[k] {
						worse = append(worse, fmt.Sprintf("%s: %d -> %d", k, vBefore[k], n))
					}
				}
				sort.Strings(worse)
				if len(worse) > 0 {
					c.w.Violation(id, "cli-fk-violation-committed", ic+fmt.Sprintf("`schema apply --auto-approve` on a `_fk=1` URL exits 0 and committed rows that violate a foreign key they did not violate before (PRAGMA foreign_key_check: %s) %s", strings.Join(worse, ", "), info))
					continue
				}
			}
			c.w.Count("cli.synced")
		}
	}
}

func dumpDiff(a, b string) string {
	la, lb := strings.Split(a, "\n"), strings.Split(b, "\n")
	in := map[string]bool{}
	for _, l := range la {
		in[l] = true
	}
	for _, l := range lb {
		if !in[l] {
			return "first new line: " + trunc(l, 200)
		}
	}
	in = map[string]bool{}
	for _, l := range lb {
		in[l] = true
	}
	for _, l := range la {
		if !in[l] {
			return "first missing line: " + trunc(l, 200)
		}
	}
	return "order differs"
}
