// The populated class "a nullable column that already has a DEFAULT becomes NOT NULL" (C01_converges_rows:
// "in sync or a row error" -- here no row error is possible, so the apply must succeed):
//
//	variant 0  only the nullability changes (the differ reports ChangeNull alone)
//	variant 1  nullability + type class (ChangeNull|ChangeType), default kept
//	variant 2  nullability + default (ChangeNull|ChangeDefault)
//	variant 3  as 0, plus a column added to the same table
//
// The table holds rows with NULL in that column.  copyRows has to wrap the column in IFNULL(col, <default>)
// whenever the new column is NOT NULL with a default and ChangeNull or ChangeDefault is set.  Required:
// the apply succeeds, no row is lost, no NULL is left, the rows that held NULL hold the default (as SQLite
// itself evaluates it for the desired column), the second diff / plan is empty.
package main

import (
	"fmt"
	"strconv"
	"strings"
)

type nullFill struct {
	table, col string
	nulls      int // rows that hold NULL in col before the apply
	total      int // rows of the table
	bcol       Col // the desired column (type, default)
}

func (g *G) notnullDefault(variant int) (a, b Schema, rows []rowSpec, fill nullFill, desc string, ok bool) {
	for try := 0; try < 40; try++ {
		a = g.schema()
		ti := g.r.Intn(len(a.Tables))
		t := &a.Tables[ti]
		if t.Strict && variant == 1 {
			continue
		}
		var cand []int
		for i, c := range t.Cols {
			if c.Gen == nil && !hasStr(t.AutoIncCols, c.Name) && !colUsed(&a, t, c.Name) && (isIntTy(c.Type) || isTextTy(c.Type)) {
				cand = append(cand, i)
			}
		}
		if len(cand) == 0 {
			continue
		}
		c := &t.Cols[cand[g.r.Intn(len(cand))]]
		c.Null = true
		for k := 0; k < 30 && (c.Def == nil || c.Def.Raw && g.plain || c.Def.V == ""); k++ {
			c.Def = g.def(c.Type)
		}
		if c.Def == nil || c.Def.V == "" || (c.Def.Raw && (g.plain || strings.Contains(c.Def.V, "random"))) {
			continue
		}
		if validSQLite(a) != nil {
			continue
		}
		b = a.clone()
		bt := &b.Tables[ti]
		bc := bt.col(c.Name)
		bc.Null = false
		desc = "set-notnull-default"
		switch variant {
		case 1:
			if isIntTy(c.Type) {
				bc.Type = []string{"real", "numeric", "double"}[g.r.Intn(3)]
			} else {
				bc.Type = []string{"json", "uuid", "blob"}[g.r.Intn(3)]
			}
			desc += "+type"
		case 2:
			old := *bc.Def
			for k := 0; k < 30 && (bc.Def == nil || *bc.Def == old || bc.Def.V == "" || bc.Def.Raw && (g.plain || strings.Contains(bc.Def.V, "random"))); k++ {
				bc.Def = g.def(bc.Type)
			}
			if bc.Def == nil || *bc.Def == old || bc.Def.V == "" || bc.Def.Raw && (g.plain || strings.Contains(bc.Def.V, "random")) {
				continue
			}
			desc += "+default"
		case 3:
			nc := Col{Name: g.freshCol(bt), Type: "int", Null: true}
			bt.Cols = append(bt.Cols, nc)
			desc += "+add-col"
		}
		if validSQLite(b) != nil || classify(a, b) != "none" {
			continue
		}
		// rows: every table as usual; the chosen table gets at least two rows, NULL in the column of the first one
		rows = nil
		good := false
		noNull = aliasCols(b)
		for i := range a.Tables {
			at := a.Tables[i]
			rs := genRows(g, at)
			if i == ti {
				for k := 0; k < 20 && len(rs) < 2; k++ {
					rs = genRows(g, at)
				}
				if len(rs) < 2 {
					rows = nil
					break
				}
				nulls := 0
				for ri := range rs {
					for ci, cn := range rs[ri].cols {
						if cn == c.Name {
							if ri == 0 {
								rs[ri].vals[ci] = "N"
							} else if ri == 1 && rs[ri].vals[ci] == "N" {
								if isIntTy(c.Type) {
									rs[ri].vals[ci] = "I" + strconv.Itoa(700+ri)
								} else {
									rs[ri].vals[ci] = "T" + hx(fmt.Sprintf("w%d", ri))
								}
							}
							if rs[ri].vals[ci] == "N" {
								nulls++
							}
						}
					}
				}
				fill = nullFill{table: at.Name, col: c.Name, nulls: nulls, total: len(rs), bcol: *bc}
				good = nulls > 0
			}
			rows = append(rows, rs...)
		}
		noNull = nil
		if good {
			return a, b, rows, fill, desc, true
		}
	}
	return Schema{}, Schema{}, nil, nullFill{}, "", false
}

// checkFill judges the rows of the column after a successful apply; "" = fine
func (l *liveDB) checkFill(f nullFill) string {
	var total, nulls int
	if err := l.db.QueryRow("SELECT count(*), count(*) - count("+q(f.col)+") FROM "+q(f.table)).Scan(&total, &nulls); err != nil {
		return "cannot read the table back: " + err.Error()
	}
	if total != f.total {
		return fmt.Sprintf("the table held %d rows, now %d", f.total, total)
	}
	if nulls != 0 {
		return fmt.Sprintf("%d rows still hold NULL in the NOT NULL column", nulls)
	}
	// what SQLite itself stores for the desired column's DEFAULT
	l.exec("DROP TABLE IF EXISTS temp.verif_probe")
	if err := l.exec("CREATE TEMP TABLE verif_probe (k int, x " + typeText(f.bcol.Type) + " DEFAULT " + rawDefault(f.bcol) + ")"); err != nil {
		return "probe: " + err.Error()
	}
	defer l.exec("DROP TABLE IF EXISTS temp.verif_probe")
	if err := l.exec("INSERT INTO temp.verif_probe (k) VALUES (1)"); err != nil {
		return "probe: " + err.Error()
	}
	var want string
	if err := l.db.QueryRow("SELECT quote(x) FROM temp.verif_probe").Scan(&want); err != nil {
		return "probe: " + err.Error()
	}
	var have int
	if err := l.db.QueryRow("SELECT count(*) FROM "+q(f.table)+" WHERE quote("+q(f.col)+") = ?", want).Scan(&have); err != nil {
		return "cannot read the table back: " + err.Error()
	}
	if have < f.nulls {
		return fmt.Sprintf("%d rows held NULL, only %d rows hold the default %s now", f.nulls, have, want)
	}
	return ""
}
