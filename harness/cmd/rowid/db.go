// Real SQLite (go-sqlite3) databases for the harness: open (file or shared-cache memory),
// run SQL, inspect through the real sqlite.Driver.
package main

import (
	"context"
	"database/sql"
	"fmt"
	"os"
	"path/filepath"
	"sync/atomic"

	"ariga.io/atlas/sql/migrate"
	"ariga.io/atlas/sql/schema"
	"ariga.io/atlas/sql/sqlite"
	_ "github.com/mattn/go-sqlite3"
)

var dbSeq int64

type liveDB struct {
	db   *sql.DB
	drv  migrate.Driver
	path string // "" for memory
}

// openDB opens a fresh database.  file=true: a file under dir; else a shared-cache memory database.
// fk selects the _fk connection parameter (foreign_keys pragma of every connection).
func openDB(dir string, file bool, fk bool) (*liveDB, error) {
	n := atomic.AddInt64(&dbSeq, 1)
	fkv := "0"
	if fk {
		fkv = "1"
	}
	var dsn, path string
	if file {
		path = filepath.Join(dir, fmt.Sprintf("db%d_%d.sqlite", os.Getpid(), n))
		os.Remove(path)
		dsn = "file:" + path + "?_fk=" + fkv
	} else {
		dsn = fmt.Sprintf("file:verif%d_%d?mode=memory&cache=shared&_fk=%s", os.Getpid(), n, fkv)
	}
	db, err := sql.Open("sqlite3", dsn)
	if err != nil {
		return nil, err
	}
	db.SetMaxOpenConns(1)
	drv, err := sqlite.Open(db)
	if err != nil {
		db.Close()
		return nil, err
	}
	return &liveDB{db: db, drv: drv, path: path}, nil
}

func (l *liveDB) Close() {
	l.db.Close()
	if l.path != "" {
		os.Remove(l.path)
	}
}

func (l *liveDB) inspect() (*schema.Schema, error) {
	return l.drv.InspectSchema(context.Background(), "main", nil)
}

func (l *liveDB) exec(q string) error {
	_, err := l.db.ExecContext(context.Background(), q)
	return err
}

// inspectedDesired: the desired state as `InspectSchema` of a real database on which the spec was created
// with the harness' own DDL (what `--to sqlite://other.db` or `--to file://schema.sql --dev-url ...` hands to
// the differ): foreign keys without a name carry SQLite's numeric ids, defaults and expressions are in
// their inspected spelling.
func inspectedDesired(b Schema) (*schema.Schema, error) {
	l, err := openDB("", false, false)
	if err != nil {
		return nil, err
	}
	defer l.Close()
	for _, st := range rawSchema(b) {
		if err := l.exec(st); err != nil {
			return nil, fmt.Errorf("%s: %w", st, err)
		}
	}
	return l.inspect()
}
