// The grid of unnamed foreign keys: tables holding two or three foreign keys without a name (of
// different shapes), next to named ones, as current and as desired state; the desired state is handed
// to the differ the way `--to sqlite://other.db` / `--to file://schema.sql --dev-url` does (inspected:
// numeric symbols "0", "1", ... in reverse declaration order).
package main

import "fmt"

// shapes a child table t(a, b, c, d) can reference parents p(id, k) and q(id) with
func fkShapes() []FK {
	return []FK{
		{Cols: []string{"a"}, RefTable: "p", RefCols: []string{"id"}},
		{Cols: []string{"b"}, RefTable: "p", RefCols: []string{"id"}},
		{Cols: []string{"c"}, RefTable: "q", RefCols: []string{"id"}},
		{Cols: []string{"a", "b"}, RefTable: "p", RefCols: []string{"id", "k"}},
		{Cols: []string{"d"}, RefTable: "t", RefCols: []string{"a"}},
	}
}

func fkBase(fks []FK) Schema {
	return Schema{Name: "main", Tables: []Table{
		{Name: "p", Cols: []Col{{Name: "id", Type: "integer"}, {Name: "k", Type: "int", Null: true}}, PK: &Idx{Parts: []Part{{Seq: 1, Col: "id"}}},
			Idx: []Idx{{Name: "p_id_k", Unique: true, Parts: []Part{{Seq: 1, Col: "id"}, {Seq: 2, Col: "k"}}}}},
		{Name: "q", Cols: []Col{{Name: "id", Type: "integer"}}, PK: &Idx{Parts: []Part{{Seq: 1, Col: "id"}}}},
		{Name: "t", Cols: []Col{{Name: "a", Type: "int", Null: true}, {Name: "b", Type: "int", Null: true}, {Name: "c", Type: "int", Null: true}, {Name: "d", Type: "int", Null: true}, {Name: "note", Type: "text", Null: true}},
			Idx: []Idx{{Name: "t_a", Unique: true, Parts: []Part{{Seq: 1, Col: "a"}}}}, FKs: fks},
	}}
}

type fkCase struct {
	a, b Schema
	desc string
}

// fkGrid: every ordered choice of 2 (and a sample of 3) unnamed shapes, with and without a named key in
// between, as the current state; the desired state is the same list (a) unchanged, (b) reversed,
// (c) with the action of one key changed, (d) with the columns of one key changed, (e) with one key
// dropped, (f) with one more unnamed key, (g) with an unrelated column change that forces the rebuild,
// (h) with an added nullable column (ALTER path), (i) with the named key renamed
func fkGrid(full bool) []fkCase {
	sh := fkShapes()
	var lists [][]FK
	for i := range sh {
		for j := range sh {
			if i == j {
				continue
			}
			lists = append(lists, []FK{sh[i], sh[j]})
			if full || (i+j)%2 == 0 {
				lists = append(lists, []FK{sh[i], {Symbol: "fk_named", Cols: []string{"c"}, RefTable: "p", RefCols: []string{"id"}, OnDelete: "CASCADE"}, sh[j]})
			}
			for k := range sh {
				if k != i && k != j && (full || (i+2*j+3*k)%5 == 0) {
					lists = append(lists, []FK{sh[i], sh[j], sh[k]})
				}
			}
		}
	}
	clone := func(l []FK) []FK {
		var o []FK
		for _, f := range l {
			o = append(o, f.clone())
		}
		return o
	}
	var out []fkCase
	for li, l := range lists {
		a := fkBase(clone(l))
		add := func(tag string, fks []FK, edit func(*Schema)) {
			b := fkBase(fks)
			if edit != nil {
				edit(&b)
			}
			out = append(out, fkCase{a, b, fmt.Sprintf("fkgrid:%d:%s", li, tag)})
		}
		add("same", clone(l), nil)
		rev := clone(l)
		for i, j := 0, len(rev)-1; i < j; i, j = i+1, j-1 {
			rev[i], rev[j] = rev[j], rev[i]
		}
		add("reversed", rev, nil)
		for i := range l {
			if l[i].Symbol != "" {
				continue
			}
			act := clone(l)
			act[i].OnDelete = "SET NULL"
			add(fmt.Sprintf("action%d", i), act, nil)
			if !full && i > 0 {
				continue
			}
			col := clone(l)
			if len(col[i].Cols) == 1 && col[i].RefTable != "t" {
				col[i].Cols = []string{"d"}
				dup := false
				for j := range col {
					if j != i && len(col[j].Cols) == 1 && col[j].Cols[0] == "d" && col[j].RefTable == col[i].RefTable {
						dup = true
					}
				}
				if !dup {
					add(fmt.Sprintf("cols%d", i), col, nil)
				}
			}
			drop := append(clone(l[:i]), clone(l[i+1:])...)
			add(fmt.Sprintf("drop%d", i), drop, nil)
		}
		more := append(clone(l), FK{Cols: []string{"note"}, RefTable: "q", RefCols: []string{"id"}, OnUpdate: "CASCADE"})
		add("more", more, nil)
		add("rebuild", clone(l), func(s *Schema) { s.table("t").col("note").Null = false; s.table("t").col("note").Def = &Def{V: "x"} })
		add("alter", clone(l), func(s *Schema) {
			t := s.table("t")
			t.Cols = append(t.Cols, Col{Name: "extra", Type: "int", Null: true})
		})
		for i := range l {
			if l[i].Symbol != "" {
				ren := clone(l)
				ren[i].Symbol = "fk_renamed"
				add("rename", ren, nil)
			}
		}
	}
	return out
}
