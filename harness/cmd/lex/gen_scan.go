package main

import (
	"fmt"
	"os"
	"path/filepath"
	"sort"
	"strings"
	"time"

	"verifharness/internal/out"
	"verifharness/internal/rng"
)

// the 12-symbol alphabet of DESIGN.md §4 C08
var alpha12 = []string{"'", "\"", "(", ")", ";", "-", "/", "*", "$", "\n", "a", " "}

// token alphabets for the second exhaustive family (sequences of <= k tokens)
var tokBegin = []string{"BEGIN ", "begin\n", "END", "END;", ";", " ", "ATOMIC ", "x", "(", ")", "'", "\n"}
var tokDelim = []string{"DELIMITER ", "delimiter ", "//", "\n", ";", "x", "'", " ", "$$", "''", "\\n", "é"}
var tokHdr = []string{"-- atlas:delimiter", " ", "\\n", "\n", "$$", ";", "x", "-- c\n", "atlas:x", "/* */"}
var tokCmt = []string{"--", "#", "/*", "*/", "\n", "\n\n", "x", ";", " ", "'", "\\", "$t$"}
var tokMisc = []string{"E'", "\\'", "'", "\\", "$$", "$a$", "$1$", "`", "\"", ";", "x", " ", " ", "\xc3", "\xe2\x80", "(", ")"}
var tokGo = []string{"GO", "go", "\n", " ", "1", "x", ";", "BEGIN TRY ", "END TRY", "END CATCH", "BEGIN CATCH ", "END", "BEGIN "}

func words(alpha []string, n int, f func(string)) {
	var rec func(k int, cur string)
	rec = func(k int, cur string) {
		f(cur)
		if k == 0 {
			return
		}
		for _, a := range alpha {
			rec(k-1, cur+a)
		}
	}
	rec(n, "")
}

func genScan(w *out.W, tier string) {
	thorough := tier == "thorough"
	startWatchdog(w, 30*time.Second)
	drv := driverOptSets()
	extra := extraOptSets()
	all := append(append([]optSet{}, drv...), extra...)
	rn := &runner{w: w, seen: map[string]struct{}{}}
	w.Rule = "a case (option set x input) is non-trivial when the real scanner returns at least one statement, an error or a panic (i.e. not the empty list)"
	w.Exhaust = true
	byName := map[string]optSet{}
	for _, s := range all {
		byName[s.name] = s
	}

	// 1. corpus: the repo's lex testdata on every option set
	corpus := loadCorpus()
	for _, c := range corpus {
		for _, s := range all {
			rn.run("c", s, c)
		}
	}
	for _, c := range handWritten {
		for _, s := range all {
			rn.run("h", s, c)
		}
	}

	// 2. exhaustive strings over the 12-symbol alphabet
	n12 := 5
	if thorough {
		n12 = 6
	}
	words(alpha12, n12, func(s string) {
		// on this alphabet generic/postgres and mysql/sqlite differ only in their BEGIN/quote
		// handling, which needs letters the alphabet lacks; all four run up to n12-1, two at n12.
		if len(s) < n12 {
			for _, o := range drv {
				rn.run("e", o, s)
			}
		} else {
			rn.run("e", byName["generic"], s)
			if thorough {
				rn.run("e", byName["mysql"], s)
			}
		}
	})
	w.Set("exhaustive_alphabet12_len", n12)

	// 3. exhaustive token sequences
	nt := 4
	if thorough {
		nt = 5
	}
	gm := []optSet{byName["mysql"]}
	gp := []optSet{byName["generic"]}
	mp := []optSet{byName["mysql"], byName["postgres"]}
	if thorough {
		gm = []optSet{byName["generic"], byName["mysql"]}
		gp = []optSet{byName["generic"], byName["postgres"]}
		mp = drv
	}
	for _, fam := range []struct {
		toks []string
		n    int
		sets []optSet
	}{
		{tokBegin, nt, mp}, {tokBegin, nt - 1, all}, {tokDelim, nt, gm}, {tokDelim, nt - 1, drv}, {tokHdr, nt, gp}, {tokHdr, nt - 1, drv},
		{tokCmt, nt, gm}, {tokCmt, nt - 1, drv}, {tokMisc, nt - 1, all}, {tokGo, nt - 1, extra}, {tokGo, nt, []optSet{byName["x-try"]}},
	} {
		words(fam.toks, fam.n, func(s string) {
			for _, o := range fam.sets {
				rn.run("t", o, s)
			}
		})
	}
	w.Set("exhaustive_token_seq_len", nt)

	// 4. grammar-based random inputs and mutations of the corpus
	r := rng.FromEnv(0xC08)
	ng, nm := 6000, 4000
	if thorough {
		ng, nm = 120000, 60000
	}
	for i := 0; i < ng; i++ {
		in := genGrammar(r)
		o := all[r.Intn(len(all))]
		if r.Chance(3, 4) {
			o = drv[r.Intn(len(drv))]
		}
		rn.run("g", o, in)
	}
	// 4b. block openers/closers in random order (the same opener is reached by several enclosing
	// scanners: what the table of failed block scans must not change)
	nb := 6000
	if thorough {
		nb = 80000
	}
	for i := 0; i < nb; i++ {
		rn.run("n", all[r.Intn(len(all))], genBlocks(r))
	}
	for i := 0; i < nm; i++ {
		in := mutate(r, corpus[r.Intn(len(corpus))])
		o := all[r.Intn(len(all))]
		if r.Chance(3, 4) {
			o = drv[r.Intn(len(drv))]
		}
		rn.run("m", o, in)
	}
	rn.flush()
	probeNestedBegins(w, byName)
}

// probeNestedBegins times the scanner on k unterminated BEGINs (oracle only; the model has no
// notion of time). Before fix C08-nested-begin every BEGIN re-scanned the rest of the input in
// every enclosing scanner (2^k nested scans: x24 took 25 s); with the table of failed block
// scans each block opener is scanned once (k scans of at most |input| bytes).
func probeNestedBegins(w *out.W, byName map[string]optSet) {
	for _, p := range []struct{ opts, word string }{{"sqlite", "BEGIN "}, {"generic", "BEGIN ATOMIC "}, {"postgres", "BEGIN ATOMIC BEGIN "}} {
		o := byName[p.opts]
		const k = 60
		in := strings.Repeat(p.word, k)
		id := "p-" + p.opts
		// under the watchdog: an exponential scanner does not come back from this input
		slots[0].id.Store(id + " " + p.opts + " " + hx(in))
		slots[0].start.Store(time.Now().UnixNano())
		r := scanSafe(scanWith(o.o), in)
		slots[0].start.Store(0)
		w.ImplOnly(id, fmt.Sprintf("%q x%d: %s", p.word, k, r.dur))
		w.Count("probe/nested-begins")
		if r.dur > 3*time.Second {
			w.Violation(id, "superlinear-time", fmt.Sprintf("opts=%s: %q repeated %d times (%d bytes) takes %s: scan time explodes with the number of unterminated block openers",
				p.opts, p.word, k, k*len(p.word), r.dur.Round(time.Millisecond)))
		}
	}
}

func loadCorpus() []string {
	var files []string
	for _, d := range []string{"lex", "lexbegintry", "lexescaped", "lexgroup"} {
		m, _ := filepath.Glob(filepath.Join(repoRoot(), "sql/migrate/testdata", d, "*.sql"))
		files = append(files, m...)
	}
	sort.Strings(files)
	var cs []string
	for _, f := range files {
		b, err := os.ReadFile(f)
		if err == nil {
			cs = append(cs, string(b))
		}
	}
	return cs
}

// inputs written while reading the code (regressions of both fixes, edge cases of each branch)
var handWritten = []string{
	"", ";", " ", "\n", "-- atlas:delimiter $$\nSELECT 1$$\nSELECT 2$$", "-- atlas:delimiter \\n\\n\nA\n\nB\n\n",
	"-- atlas:delimiter", "-- atlas:delimiter \n", "-- atlas:delimiter x", "-- atlas:delimiter  x  \nAx  BxC",
	"-- atlas:delimiter x atlas:y\nAxB", "-- atlas:delimiterx\nA;", "--  atlas:delimiter x\nA;",
	"DELIMITER '\nSELECT 1", "DELIMITER ''\nSELECT 1", "DELIMITER '''\nA'B'", "delimiter //\nA//\nB//\ndelimiter ;\nC;",
	"DELIMITER //", "DELIMITER  ", "DELIMITER \n", "DELIMITERX //\n", "delimiter", "delimiter;", "A; DELIMITER $$\nB$$ C$$",
	"DELIMITER \xc3\nA\xc3\xa9B\xc3", "DELIMITER \xa9\n\xc3\xa9;\xc3\xa9",
	"SELECT $$a;b$$;", "SELECT $t$ ; $t$ x; y", "$1$;", "$a$ ; ", "$é$ ; $é$;", "$\xc3$;", "SELECT $x$ unclosed",
	"BEGIN; SELECT 1; END;", "CREATE TRIGGER t BEGIN SELECT 1; END; SELECT 2;", "BEGIN BEGIN BEGIN BEGIN", "x BEGIN ATOMIC SELECT 1; END; y;",
	"BEGIN ATOMIC -- atlas:delimiter $$\nSELECT 1$$ END$$ ; x;", "BEGIN -- atlas:delimiter\nEND;", "CREATE x BEGIN IF a THEN b; END IF; END; z;",
	"E'it\\'s'; x;", "'it\\'s'; x;", "'a''b';", "`a;b`;\"c;d\";", "(a;b);c", "((a);", ")", "(", "'", "a -- c\n;b", "-- c\n\nA;", "-- c\nA;", "/* c */A;/* d */\n\nB;",
	"# c\nA;", "/* unterminated", "-- no newline", "A;\n-- trailing", " A; B;　", "\x85A;", "\xc2\x85A;", "A\xc2;",
	"SELECT 1\nGO\nSELECT 2\nGO 2\n", "GO", "GO x\n", "go 99999999999999999999\n", "A\ngo\n", "BEGIN TRY x; END TRY BEGIN CATCH y; END CATCH\nEND;",
	"BEGIN x; END\n", "BEGIN END", "begin\nend;", "IF x BEGIN y END", "A;;B", ";;", "a;\n\n\nb",
}

// ---- grammar-based generator --------------------------------------------------

var idents = []string{"a", "t1", "users", "é", "x_y", "名", "BEGINx", "ENDING", "delimiters", "GOx"}

func genQuote(r *rng.R) string {
	q := rng.Pick(r, []string{"'", "\"", "`", "'", "E'", "e'"})
	var b strings.Builder
	b.WriteString(q)
	c := q[len(q)-1:]
	for n := r.Intn(5); n > 0; n-- {
		switch r.Intn(9) {
		case 0:
			b.WriteString(c + c)
		case 1:
			b.WriteString("\\" + c)
		case 2:
			b.WriteString("\\\\")
		case 3:
			b.WriteString(";")
		case 4:
			b.WriteString("--")
		case 5:
			b.WriteString("\n")
		case 6:
			b.WriteString("(")
		default:
			b.WriteString(rng.Pick(r, idents))
		}
	}
	if !r.Chance(1, 12) {
		b.WriteString(c)
	}
	return b.String()
}

func genComment(r *rng.R) string {
	body := rng.Pick(r, []string{"", " c", " a;b", " it's", " (", " $$", " */ x", " atlas:nolint", " BEGIN"})
	switch r.Intn(7) {
	case 0, 1:
		return "--" + body + "\n"
	case 2:
		return "--" + body // unterminated
	case 3:
		return "#" + body + "\n"
	case 4:
		return "/*" + body + "*/"
	case 5:
		return "/*" + body + "\n more */" + rng.Pick(r, []string{"", "\n", "\n\n"})
	default:
		return "/*" + body // unterminated
	}
}

func genDollar(r *rng.R) string {
	tag := rng.Pick(r, []string{"", "", "t", "body", "é", "_x1", "1", "a b"})
	inner := rng.Pick(r, []string{"", "x", "a;b", "it's", "$", "$$", "$u$", "\n", "BEGIN x; END;", "(("})
	if r.Chance(1, 10) {
		return "$" + tag + "$" + inner
	}
	return "$" + tag + "$" + inner + "$" + tag + "$"
}

func genSpace(r *rng.R) string {
	return rng.Pick(r, []string{" ", " ", "\n", "\n", "\t", "\r\n", "\n\n", "  ", " ", " ", "\v", "\f", "\u0085", "　", " "})
}

func genAtom(r *rng.R, depth int) string {
	switch r.Intn(16) {
	case 0, 1, 2, 3:
		return rng.Pick(r, idents)
	case 4, 5:
		return genSpace(r)
	case 6:
		return genQuote(r)
	case 7:
		return genComment(r)
	case 8:
		return genDollar(r)
	case 9:
		if depth > 2 {
			return "x"
		}
		var b strings.Builder
		b.WriteString("(")
		for n := r.Intn(4); n > 0; n-- {
			b.WriteString(genAtom(r, depth+1))
		}
		if !r.Chance(1, 10) {
			b.WriteString(")")
		}
		return b.String()
	case 10:
		return rng.Pick(r, []string{"SELECT", "CREATE TABLE", "INSERT", ",", "=", "1", "*", "/", "-", "$", "$1", "::", "\\", ")", "#"})
	case 11:
		return rng.Pick(r, []string{"\xc3", "\xe2\x80", "\xff", "\xf0\x9f\x98\x80", "\xed\xa0\x80", "\xc0\xaf", "\xe0\x80\x80", "\x80"})
	case 12:
		return rng.Pick(r, []string{"END", "end", "END IF", "END LOOP", "END;", "end\n", "BEGIN", "begin ", "BEGIN\n", "ATOMIC "})
	default:
		return rng.Pick(r, idents) + " "
	}
}

func genBlock(r *rng.R, depth int, delim string) string {
	var b strings.Builder
	b.WriteString(rng.Pick(r, []string{"BEGIN ", "begin\n", "BEGIN ATOMIC ", "Begin  Atomic\n", "BEGIN\t", "BEGIN TRY ", "BEGIN"}))
	for n := 1 + r.Intn(3); n > 0; n-- {
		if depth < 2 && r.Chance(1, 5) {
			b.WriteString(genBlock(r, depth+1, ";"))
		} else {
			b.WriteString(genPlain(r))
		}
		b.WriteString(rng.Pick(r, []string{";", "; ", ";\n", ";", ""}))
	}
	if !r.Chance(1, 8) {
		b.WriteString(rng.Pick(r, []string{"END", "end", "END ", "END\n", "END IF", "END TRY BEGIN CATCH x; END CATCH", "END CATCH"}))
	}
	return b.String()
}

var blockToks = []string{"BEGIN ", "BEGIN\n", "begin ", "BEGIN ATOMIC ", "BEGIN TRY ", "BEGIN CATCH ", "END", "END;", "END; ", "END\n", "END TRY ", "END CATCH", "END CATCH;", "END IF;",
	"x;", "x; ", ";", " ", "\n", "(", ")", "'", "-- c\n", "/* c */", "$$", "DELIMITER //\n", "//", "-- atlas:delimiter $$\n", "y "}

// genBlocks: 4..16 tokens, at most 9 block openers (the *model* re-scans exponentially).
func genBlocks(r *rng.R) string {
	var b strings.Builder
	openers := 0
	for n := 4 + r.Intn(13); n > 0; n-- {
		t := rng.Pick(r, blockToks)
		if r.Chance(1, 2) {
			t = blockToks[r.Intn(14)]
		}
		if strings.HasPrefix(strings.ToUpper(t), "BEGIN") {
			if openers++; openers > 9 {
				continue
			}
		}
		b.WriteString(t)
	}
	return b.String()
}

func genPlain(r *rng.R) string {
	var b strings.Builder
	for n := 1 + r.Intn(6); n > 0; n-- {
		b.WriteString(genAtom(r, 0))
	}
	return b.String()
}

func genGrammar(r *rng.R) string {
	var b strings.Builder
	delim := ";"
	if r.Chance(1, 5) {
		d := rng.Pick(r, []string{"$$", "//", "\\n\\n", ";;", "GO", "x", " ", "\\t", "é", "--", "/*"})
		b.WriteString(rng.Pick(r, []string{"-- atlas:delimiter ", "-- atlas:delimiter  ", "--atlas:delimiter ", "-- atlas:delimiter", "-- atlas:Delimiter "}))
		b.WriteString(d)
		b.WriteString(rng.Pick(r, []string{"\n", "\n\n", "", " \n", "\r\n"}))
		delim = unesc(d)
	}
	for n := r.Intn(5); n >= 0; n-- {
		switch r.Intn(12) {
		case 0:
			nd := rng.Pick(r, []string{"//", "$$", ";", "';'", "'", "''", "'a''b'", "\\n", "x y", "é", ""})
			b.WriteString(rng.Pick(r, []string{"DELIMITER ", "delimiter ", "Delimiter  ", "DELIMITER", "DELIMITER\t"}))
			b.WriteString(nd)
			b.WriteString(rng.Pick(r, []string{"\n", "\n", " \n", ""}))
			if nd != "" {
				delim = strings.Trim(nd, "'")
			}
		case 1, 2:
			b.WriteString(genComment(r))
		case 3:
			b.WriteString(genSpace(r))
		case 4, 5:
			if r.Chance(1, 2) {
				b.WriteString(rng.Pick(r, []string{"CREATE TRIGGER t ", "CREATE FUNCTION f() ", "x ", ""}))
			}
			b.WriteString(genBlock(r, 0, delim))
			b.WriteString(delim)
		case 6:
			b.WriteString(genPlain(r))
			b.WriteString(rng.Pick(r, []string{"\nGO\n", "\ngo 2\n", "\nGO x\n", "GO\n", "\nGO"}))
		default:
			b.WriteString(genPlain(r))
			if !r.Chance(1, 10) {
				b.WriteString(delim)
			}
		}
		if r.Chance(1, 2) {
			b.WriteString(genSpace(r))
		}
	}
	return b.String()
}

// byte-level mutations of a corpus file (kept short: a window of the file)
func mutate(r *rng.R, s string) string {
	if len(s) > 400 {
		a := r.Intn(len(s) - 399)
		s = s[a : a+300+r.Intn(100)]
	}
	b := []byte(s)
	for n := 1 + r.Intn(4); n > 0 && len(b) > 0; n-- {
		i := r.Intn(len(b))
		switch r.Intn(6) {
		case 0:
			b = append(b[:i], b[i+1:]...)
		case 1:
			c := rng.Pick(r, []string{"'", "\"", "(", ")", ";", "--", "/*", "*/", "$$", "\n", "\\", "BEGIN ", "END", "DELIMITER //\n", "\xc3", "#", "`"})
			b = append(b[:i], append([]byte(c), b[i:]...)...)
		case 2:
			b[i] = byte(r.Intn(256))
		case 3:
			j := r.Intn(len(b))
			b[i], b[j] = b[j], b[i]
		case 4:
			b = b[:i]
		default:
			j := i + r.Intn(len(b)-i)
			b = append(b[:i], b[j:]...)
		}
	}
	return string(b)
}
