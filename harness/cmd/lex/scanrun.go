package main

import (
	"encoding/hex"
	"fmt"
	"os"
	"regexp"
	"strconv"
	"runtime"
	"strings"
	"sync"
	"sync/atomic"
	"time"

	"ariga.io/atlas/sql/migrate"
	"ariga.io/atlas/sql/mysql"
	"ariga.io/atlas/sql/postgres"
	"ariga.io/atlas/sql/sqlite"

	"verifharness/internal/out"
)

func hx(s string) string {
	if s == "" {
		return "-"
	}
	return hex.EncodeToString([]byte(s))
}

// result of one real scan
type scanRes struct {
	stmts    []*migrate.Stmt
	err      error
	panicked bool
	pmsg     string
	dur      time.Duration
}

func scanSafe(f func(string) ([]*migrate.Stmt, error), input string) (r scanRes) {
	t0 := time.Now()
	defer func() {
		if p := recover(); p != nil {
			r.panicked, r.pmsg = true, fmt.Sprint(p)
		}
		r.dur = time.Since(t0)
	}()
	r.stmts, r.err = f(input)
	return
}

func scanWith(o migrate.ScannerOptions) func(string) ([]*migrate.Stmt, error) {
	return func(in string) ([]*migrate.Stmt, error) {
		return (&migrate.Scanner{ScannerOptions: o}).Scan(in)
	}
}

// the real entry points of the four driver option sets.
func driverEntry(name string) func(string) ([]*migrate.Stmt, error) {
	switch name {
	case "generic":
		return migrate.Stmts
	case "mysql":
		return (*mysql.Driver)(nil).ScanStmts
	case "postgres":
		return (*postgres.Driver)(nil).ScanStmts
	case "sqlite":
		return (*sqlite.Driver)(nil).ScanStmts
	}
	return nil
}

var reErrPos = regexp.MustCompile(`^(\d+):(\d+): (.*)$`)

// canonical error: kind enum + line:col of Scanner.error (0 0 when the error has none).
func errCanon(err error) string {
	msg := err.Error()
	line, col := 0, 0
	if m := reErrPos.FindStringSubmatch(strings.SplitN(msg, "\n", 2)[0]); m != nil && !strings.HasPrefix(msg, "sql/migrate:") {
		line, _ = strconv.Atoi(m[1])
		col, _ = strconv.Atoi(m[2])
		msg = msg[len(m[1])+len(m[2])+3:]
	}
	kind := "other:" + hx(msg)
	for _, k := range [][2]string{
		{"unclosed '('", "unclosed-paren"}, {"unexpected ')'", "unexpected-paren"}, {"unclosed quote", "unclosed-quote"},
		{"empty delimiter", "empty-delim"}, {"no input found after delimiter", "no-input-after-delim"},
		{"unexpected dollar quote", "unexpected-dollar"}, {"unclosed dollar-quoted string", "unclosed-dollar"},
		{"unexpected missing BEGIN ATOMIC block", "missing-begin-atomic"}, {"unexpected missing BEGIN TRY block", "missing-begin-try"},
		{"unexpected missing BEGIN block", "missing-begin"},
		{"unexpected eof when scanning sql body", "eof-body"}, {"scan sql body:", "scan-body"},
		{"unexpected eof when scanning compound statements", "eof-compound"}, {"scan compound statements:", "scan-compound"},
		{"sql/migrate: invalid GO command", "invalid-go"},
	} {
		if strings.HasPrefix(msg, k[0]) {
			kind = k[1]
			break
		}
	}
	return fmt.Sprintf("err %s %d %d", kind, line, col)
}

func (r scanRes) canon() string {
	switch {
	case r.panicked:
		return "panic"
	case r.err != nil:
		return errCanon(r.err)
	}
	var b strings.Builder
	fmt.Fprintf(&b, "ok %d", len(r.stmts))
	for _, s := range r.stmts {
		cs := "-"
		if len(s.Comments) > 0 {
			p := make([]string, len(s.Comments))
			for i, c := range s.Comments {
				p[i] = hx(c)
			}
			cs = strings.Join(p, ",")
		}
		fmt.Fprintf(&b, " %d:%s:%s", s.Pos, hx(s.Text), cs)
	}
	return b.String()
}

// a scan that does not return within the budget is a hang (termination clause): the watchdog
// records it and ends the run (the stuck goroutine cannot be stopped).
type slot struct {
	id    atomic.Value // string
	start atomic.Int64
}

var slots [64]slot

func startWatchdog(w *out.W, budget time.Duration) {
	go func() {
		for {
			time.Sleep(500 * time.Millisecond)
			for i := range slots {
				st := slots[i].start.Load()
				if st != 0 && time.Since(time.Unix(0, st)) > budget {
					id, _ := slots[i].id.Load().(string)
					wmu.Lock()
					w.Violation(strings.Fields(id)[0], "hang", fmt.Sprintf("scan did not return within %s: %s", budget, id))
					w.Close()
					fmt.Fprintln(os.Stderr, "hang on case", id)
					os.Exit(0)
				}
			}
		}
	}()
}

var wmu sync.Mutex

type job struct {
	id, tag string
	os      optSet
	input   string
	// results
	obs   string
	r     scanRes
	viols [][2]string
	extra bool
}

type runner struct {
	w    *out.W
	n    int
	seen map[string]struct{}
	q    []*job
}

// run enqueues one case: option set x input.
func (rn *runner) run(tag string, os optSet, input string) {
	key := os.name + "\x00" + input
	if _, dup := rn.seen[key]; dup {
		return
	}
	rn.seen[key] = struct{}{}
	rn.n++
	rn.q = append(rn.q, &job{id: fmt.Sprintf("%s%d", tag, rn.n), tag: tag, os: os, input: input})
	if len(rn.q) >= 100000 {
		rn.flush()
	}
}

// exec runs the real scanner on one case, cross-checks the driver entry point against
// Scanner{dumped options} and evaluates the oracle (driver option sets only).
func (j *job) exec(sl *slot) {
	sl.id.Store(j.id + " " + j.os.name + " " + hx(j.input))
	sl.start.Store(time.Now().UnixNano())
	defer sl.start.Store(0)
	j.r = scanSafe(scanWith(j.os.o), j.input)
	j.obs = j.r.canon()
	vs := oracle(j.os, j.input, j.r)
	if !j.os.driver && j.os.o.GoCommand {
		// GoCommand (reachable only through the exported migrate.Scanner API, no driver of this tree sets
		// it): Pos is off after a GO batch separator (C08_positions_gocommand_refuted). Position/gap
		// failures of these sets are reported under their own class; a panic or hang stays what it is.
		j.extra = len(vs) > 0
		for _, v := range vs {
			if v[0] == "panic" || v[0] == "hang" {
				j.viols = append(j.viols, v)
			} else if len(j.viols) == 0 {
				j.viols = append(j.viols, [2]string{"gocommand-pos", "(GoCommand option set) " + v[1]})
			}
		}
		// round 5: the known finding is exactly "Pos too large by the length of the consumed GO separator"
		// (C08_lossless_all_options_except). With the offsets corrected that way every clause must hold;
		// whatever is left is not the known finding.
		if len(vs) > 0 && !j.r.panicked && j.r.err == nil {
			if r2, _, ok := unshiftGo(j.input, j.r); !ok {
				j.viols = append(j.viols, [2]string{"gocommand-other", "(GoCommand option set) a Text is neither at its Pos nor at Pos minus the length of a GO separator that follows it: " + vs[0][1]})
			} else {
				for _, v := range oracle(j.os, j.input, r2) {
					j.viols = append(j.viols, [2]string{"gocommand-other", "(GoCommand option set, offsets corrected by the GO separators) " + v[1]})
					break
				}
			}
		}
		return
	}
	j.viols = vs
	if e := driverEntry(j.os.name); e != nil {
		if r2 := scanSafe(e, j.input); r2.canon() != j.obs {
			j.viols = append(j.viols, [2]string{"entry-mismatch", fmt.Sprintf("entry point returns %q, Scanner with the dumped options %q", r2.canon(), j.obs)})
		}
	}
	// the layer around the scanner (round 5): LocalFile.StmtDecls / Stmts and migrate.FileStmtDecls /
	// FileStmts must return what the entry point returns (FileStmts / Stmts: its Texts).
	if j.os.driver && (len(j.input) > 5 || len(j.id)%4 == 0) {
		if msg := wrappersAgree(j.os.name, j.input, j.obs, j.r); msg != "" {
			j.viols = append(j.viols, [2]string{"entry-mismatch", msg})
		}
	}
	if j.r.dur > 5*time.Second {
		j.viols = append(j.viols, [2]string{"hang", fmt.Sprintf("scan of %d bytes took %s", len(j.input), j.r.dur)})
	}
}

func (rn *runner) flush() {
	nw := runtime.GOMAXPROCS(0)
	if nw > len(slots) {
		nw = len(slots)
	}
	var wg sync.WaitGroup
	var next atomic.Int64
	for k := 0; k < nw; k++ {
		wg.Add(1)
		go func(k int) {
			defer wg.Done()
			for {
				i := int(next.Add(1)) - 1
				if i >= len(rn.q) {
					return
				}
				rn.q[i].exec(&slots[k])
			}
		}(k)
	}
	wg.Wait()
	wmu.Lock()
	defer wmu.Unlock()
	for _, j := range rn.q {
		rn.w.Case(j.id, bits(j.os.o)+" "+hx(j.input), []string{j.obs})
		rn.w.Count("opts/" + j.os.name)
		rn.w.Count("gen/" + j.tag)
		switch {
		case j.r.panicked:
			rn.w.Count("out/panic")
		case j.r.err != nil:
			rn.w.Count("out/" + strings.Fields(j.obs)[1])
		default:
			k := len(j.r.stmts)
			if k > 3 {
				k = 3
			}
			rn.w.Count(fmt.Sprintf("out/ok-%d+", k))
		}
		if len(j.r.stmts) > 0 || j.r.err != nil || j.r.panicked {
			rn.w.NonTrivial(j.os.name + "\x00" + j.input)
		}
		if j.extra {
			rn.w.Count("extra-opts-oracle-fail (not a property violation: option set unused by drivers)")
		}
		for _, v := range j.viols {
			rn.w.Violation(j.id, v[0], fmt.Sprintf("opts=%s input=%q (hex %s): %s", j.os.name, j.input, hx(j.input), v[1]))
		}
	}
	rn.q = rn.q[:0]
}

func driverOf(name string) migrate.Driver {
	switch name {
	case "mysql":
		return (*mysql.Driver)(nil)
	case "postgres":
		return (*postgres.Driver)(nil)
	case "sqlite":
		return (*sqlite.Driver)(nil)
	}
	return nil
}

func textsCanon(ts []string, err error, panicked bool) string {
	if panicked {
		return "panic"
	}
	if err != nil {
		return errCanon(err)
	}
	p := make([]string, len(ts))
	for i, t := range ts {
		p[i] = hx(t)
	}
	return fmt.Sprintf("ok %d %s", len(ts), strings.Join(p, " "))
}

// wrappersAgree: FileStmtDecls(drv, LocalFile) = ScanStmts of the driver (LocalFile.StmtDecls = migrate.Stmts
// without a driver), FileStmts = the Texts of it; for the generic set also LocalFile.StmtDecls / Stmts.
func wrappersAgree(name, input, obs string, r scanRes) string {
	f := migrate.NewLocalFile("1.sql", []byte(input))
	drv := driverOf(name)
	if r2 := scanSafe(func(string) ([]*migrate.Stmt, error) { return migrate.FileStmtDecls(drv, f) }, input); r2.canon() != obs {
		return fmt.Sprintf("migrate.FileStmtDecls returns %q, the scanner %q", r2.canon(), obs)
	}
	var want []string
	for _, s := range r.stmts {
		want = append(want, s.Text)
	}
	wantC := textsCanon(want, r.err, r.panicked)
	texts := func(g func() ([]string, error)) (c string) {
		defer func() {
			if p := recover(); p != nil {
				c = "panic"
			}
		}()
		ts, err := g()
		return textsCanon(ts, err, false)
	}
	if got := texts(func() ([]string, error) { return migrate.FileStmts(drv, f) }); got != wantC {
		return fmt.Sprintf("migrate.FileStmts returns %q, the scanner's texts are %q", got, wantC)
	}
	if name == "generic" {
		if r2 := scanSafe(func(string) ([]*migrate.Stmt, error) { return f.StmtDecls() }, input); r2.canon() != obs {
			return fmt.Sprintf("LocalFile.StmtDecls returns %q, the scanner %q", r2.canon(), obs)
		}
		if got := texts(f.Stmts); got != wantC {
			return fmt.Sprintf("LocalFile.Stmts returns %q, the scanner's texts are %q", got, wantC)
		}
		if string(f.Bytes()) != input {
			return "LocalFile.Bytes changed by scanning"
		}
	}
	return ""
}
