package main

import (
	"encoding/hex"
	"fmt"
	"os"
	"regexp"
	"strconv"
	"strings"
	"sync/atomic"
	"time"

	"ariga.io/atlas/sql/migrate"
	"ariga.io/atlas/sql/mysql"
	"ariga.io/atlas/sql/postgres"
	"ariga.io/atlas/sql/sqlite"

	"verifharness/internal/out"
)

func hx(s string) string {
	if s == "" {
		return "-"
	}
	return hex.EncodeToString([]byte(s))
}

// result of one real scan
type scanRes struct {
	stmts    []*migrate.Stmt
	err      error
	panicked bool
	pmsg     string
	dur      time.Duration
}

func scanSafe(f func(string) ([]*migrate.Stmt, error), input string) (r scanRes) {
	t0 := time.Now()
	defer func() {
		if p := recover(); p != nil {
			r.panicked, r.pmsg = true, fmt.Sprint(p)
		}
		r.dur = time.Since(t0)
	}()
	r.stmts, r.err = f(input)
	return
}

func scanWith(o migrate.ScannerOptions) func(string) ([]*migrate.Stmt, error) {
	return func(in string) ([]*migrate.Stmt, error) {
		return (&migrate.Scanner{ScannerOptions: o}).Scan(in)
	}
}

// the real entry points of the four driver option sets.
func driverEntry(name string) func(string) ([]*migrate.Stmt, error) {
	switch name {
	case "generic":
		return migrate.Stmts
	case "mysql":
		return (*mysql.Driver)(nil).ScanStmts
	case "postgres":
		return (*postgres.Driver)(nil).ScanStmts
	case "sqlite":
		return (*sqlite.Driver)(nil).ScanStmts
	}
	return nil
}

var reErrPos = regexp.MustCompile(`^(\d+):(\d+): (.*)$`)

// canonical error: kind enum + line:col of Scanner.error (0 0 when the error has none).
func errCanon(err error) string {
	msg := err.Error()
	line, col := 0, 0
	if m := reErrPos.FindStringSubmatch(strings.SplitN(msg, "\n", 2)[0]); m != nil && !strings.HasPrefix(msg, "sql/migrate:") {
		line, _ = strconv.Atoi(m[1])
		col, _ = strconv.Atoi(m[2])
		msg = msg[len(m[1])+len(m[2])+3:]
	}
	kind := "other:" + hx(msg)
	for _, k := range [][2]string{
		{"unclosed '('", "unclosed-paren"}, {"unexpected ')'", "unexpected-paren"}, {"unclosed quote", "unclosed-quote"},
		{"empty delimiter", "empty-delim"}, {"no input found after delimiter", "no-input-after-delim"},
		{"unexpected dollar quote", "unexpected-dollar"}, {"unclosed dollar-quoted string", "unclosed-dollar"},
		{"unexpected missing BEGIN ATOMIC block", "missing-begin-atomic"}, {"unexpected missing BEGIN TRY block", "missing-begin-try"},
		{"unexpected missing BEGIN block", "missing-begin"},
		{"unexpected eof when scanning sql body", "eof-body"}, {"scan sql body:", "scan-body"},
		{"unexpected eof when scanning compound statements", "eof-compound"}, {"scan compound statements:", "scan-compound"},
		{"sql/migrate: invalid GO command", "invalid-go"},
	} {
		if strings.HasPrefix(msg, k[0]) {
			kind = k[1]
			break
		}
	}
	return fmt.Sprintf("err %s %d %d", kind, line, col)
}

func (r scanRes) canon() string {
	switch {
	case r.panicked:
		return "panic"
	case r.err != nil:
		return errCanon(r.err)
	}
	var b strings.Builder
	fmt.Fprintf(&b, "ok %d", len(r.stmts))
	for _, s := range r.stmts {
		cs := "-"
		if len(s.Comments) > 0 {
			p := make([]string, len(s.Comments))
			for i, c := range s.Comments {
				p[i] = hx(c)
			}
			cs = strings.Join(p, ",")
		}
		fmt.Fprintf(&b, " %d:%s:%s", s.Pos, hx(s.Text), cs)
	}
	return b.String()
}

// watchdog: a scan that does not return within the budget is a hang (termination clause).
var (
	curCase  atomic.Value // string
	curStart atomic.Int64
)

func startWatchdog(w *out.W, budget time.Duration) {
	go func() {
		for {
			time.Sleep(500 * time.Millisecond)
			st := curStart.Load()
			if st != 0 && time.Since(time.Unix(0, st)) > budget {
				id, _ := curCase.Load().(string)
				w.Violation(id, "hang", fmt.Sprintf("scan did not return within %s", budget))
				w.Close()
				fmt.Fprintln(os.Stderr, "hang on case", id)
				os.Exit(0)
			}
		}
	}()
}

type runner struct {
	w     *out.W
	n     int
	seen  map[string]struct{}
	slowN int
}

// one case: option set x input. Records the observation, cross-checks the driver entry
// point against Scanner{dumped options}, evaluates the oracle on driver option sets.
func (rn *runner) run(tag string, os optSet, input string) {
	key := os.name + "\x00" + input
	if _, dup := rn.seen[key]; dup {
		return
	}
	rn.seen[key] = struct{}{}
	rn.n++
	id := fmt.Sprintf("%s%d", tag, rn.n)
	curCase.Store(id + " " + os.name + " " + hx(input))
	curStart.Store(time.Now().UnixNano())
	r := scanSafe(scanWith(os.o), input)
	curStart.Store(0)
	obs := r.canon()
	rn.w.Case(id, bits(os.o)+" "+hx(input), []string{obs})
	rn.w.Count("opts/" + os.name)
	rn.w.Count("gen/" + tag)
	switch {
	case r.panicked:
		rn.w.Count("out/panic")
	case r.err != nil:
		rn.w.Count("out/" + strings.Fields(obs)[1])
	default:
		k := len(r.stmts)
		if k > 3 {
			k = 3
		}
		rn.w.Count(fmt.Sprintf("out/ok-%d+", k))
	}
	if len(r.stmts) > 0 || r.err != nil || r.panicked {
		rn.w.NonTrivial(key)
	}
	if !os.driver {
		if vs := oracle(os, input, r); len(vs) > 0 {
			rn.w.Count("extra-opts-oracle-fail (not a property violation: option set unused by drivers)")
		}
		return
	}
	// the real entry point must behave as Scanner{dumped options}
	if e := driverEntry(os.name); e != nil {
		if r2 := scanSafe(e, input); r2.canon() != obs {
			rn.w.Violation(id, "entry-mismatch", fmt.Sprintf("%s entry point returns %q, Scanner with dumped options %q on %q", os.name, r2.canon(), obs, input))
		}
	}
	if r.dur > 2*time.Second {
		rn.w.Violation(id, "hang", fmt.Sprintf("scan of %d bytes took %s (opts %s) input=%q", len(input), r.dur, os.name, input))
	}
	for _, v := range oracle(os, input, r) {
		rn.w.Violation(id, v[0], fmt.Sprintf("opts=%s input=%q: %s", os.name, input, v[1]))
	}
}
