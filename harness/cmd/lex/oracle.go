package main

import (
	"fmt"
	"strings"
	"unicode"
	"unicode/utf8"
)

// oracle evaluates the clauses of C08 on what the real scanner returned.
// It returns (class, message) pairs; it never looks at the model.
func oracle(os optSet, input string, r scanRes) (vs [][2]string) {
	if r.panicked {
		return [][2]string{{"panic", "scanner panicked: " + r.pmsg}}
	}
	if r.err != nil {
		return nil // "returns either an error or a list of statements"
	}
	// clause 2: Text at Pos; clause 3: increasing, disjoint
	end := 0
	ok := true
	for i, s := range r.stmts {
		switch {
		case s.Pos < 0 || s.Pos+len(s.Text) > len(input) || input[s.Pos:s.Pos+len(s.Text)] != s.Text:
			vs = append(vs, [2]string{"text-not-at-pos", fmt.Sprintf("stmt %d: Text %q is not at Pos %d", i, s.Text, s.Pos)})
			ok = false
		case s.Pos < end || (i > 0 && s.Pos <= r.stmts[i-1].Pos):
			vs = append(vs, [2]string{"overlap", fmt.Sprintf("stmt %d: Pos %d is not after the previous statement (end %d)", i, s.Pos, end)})
			ok = false
		}
		end = s.Pos + len(s.Text)
	}
	if !ok {
		return vs
	}
	// clause 4: gaps
	g := &gapper{in: input, hash: os.o.HashComments, memo: map[string]bool{}, gocmd: os.o.GoCommand}
	delim, off := ";", 0
	if d, n, ok := headerDirective(input); ok {
		delim, off = d, n
	}
	cur := off
	if len(r.stmts) > 0 && r.stmts[0].Pos < off {
		return append(vs, [2]string{"gap", fmt.Sprintf("first statement at %d starts inside the header line (%d bytes)", r.stmts[0].Pos, off)})
	}
	ds := []string{delim}
	for i := 0; i <= len(r.stmts); i++ {
		to := len(input)
		if i < len(r.stmts) {
			to = r.stmts[i].Pos
		}
		nds := map[string]bool{}
		for _, d := range ds {
			for _, d2 := range g.gap(cur, to, d, i == 0) {
				nds[d2] = true
			}
		}
		if len(nds) == 0 {
			return append(vs, [2]string{"gap", fmt.Sprintf("bytes [%d,%d) = %q before statement %d are not only white space, comments, delimiters (%q) or delimiter commands", cur, to, input[cur:to], i, ds)})
		}
		ds = ds[:0]
		for d := range nds {
			ds = append(ds, d)
		}
		if i < len(r.stmts) {
			cur = to + len(r.stmts[i].Text)
		}
	}
	// not judged: a first line "-- atlas:delimiter ..." that mentions "atlas:" a second time (the greedy
	// first group of reDirective then does not see a delimiter directive and the line is an ordinary
	// comment; which reading is intended is not settled by the property).
	if len(vs) == 0 && !os.o.GoCommand && !(off > 0 && strings.Count(input[:off], "atlas:") > 1) {
		vs = append(vs, commentsOracle(os, input, r, off, delim)...)
	}
	return vs
}

// clause "comments" (round 5; theorem: the GapCs premise of LosslessG): Stmt.Comments is the comment
// group that the gap before the statement leaves - starting empty after the previous statement,
// white space keeps the group, a terminated comment is appended unless an empty line follows it
// (then the group is emptied), a DELIMITER command line empties it. Own deterministic reading of
// the gap; when the gap cannot be read that way (a delimiter that looks like a comment opener or
// like white space) the clause is not judged.
func commentsOracle(os optSet, input string, r scanRes, off int, delim string) (vs [][2]string) {
	cur := off
	for i, s := range r.stmts {
		exp, nd, ok := expectedComments(input, cur, s.Pos, delim, os.o.HashComments, i == 0)
		if !ok {
			return vs
		}
		delim = nd
		same := len(exp) == len(s.Comments)
		for k := 0; same && k < len(exp); k++ {
			same = exp[k] == s.Comments[k]
		}
		if !same {
			vs = append(vs, [2]string{"comments", fmt.Sprintf("stmt %d (Pos %d): Comments %q, the gap before it leaves the group %q", i, s.Pos, s.Comments, exp)})
		}
		cur = s.Pos + len(s.Text)
	}
	return vs
}

func skipWS(in string, i, to int) int {
	for i < to {
		r, w := utf8.DecodeRuneInString(in[i:to])
		if !unicode.IsSpace(r) {
			break
		}
		i += w
	}
	return i
}

func expectedComments(in string, from, to int, delim string, hash, first bool) (cs []string, nd string, ok bool) {
	i := from
	if !first {
		// the rest of the raw statement: white space, then possibly the delimiter in force
		if r, _ := utf8.DecodeRuneInString(delim); delim == "" || unicode.IsSpace(r) || strings.ContainsRune("-/#dD", r) {
			return nil, "", false
		}
		if j := skipWS(in, i, to); strings.HasPrefix(in[j:to], delim) {
			i = j + len(delim)
		}
	}
	for {
		i = skipWS(in, i, to)
		if i >= to {
			return cs, delim, i == to
		}
		s := in[i:]
		switch {
		case strings.HasPrefix(s, "--") || (hash && strings.HasPrefix(s, "#")):
			j := strings.IndexByte(s, '\n')
			if j < 0 {
				return nil, "", false
			}
			if strings.HasPrefix(s[j+1:], "\n") {
				cs = nil
			} else {
				cs = append(cs, s[:j+1])
			}
			i += j + 1
		case strings.HasPrefix(s, "/*"):
			j := strings.Index(s[2:], "*/")
			if j < 0 {
				return nil, "", false
			}
			if strings.HasPrefix(s[j+4:], "\n\n") {
				cs = nil
			} else {
				cs = append(cs, s[:j+4])
			}
			i += j + 4
		case len(s) > 10 && strings.EqualFold(s[:10], "delimiter "):
			j := strings.IndexByte(s, '\n')
			e := j + 1
			if j < 0 {
				j, e = len(s), len(s)
			}
			d := strings.TrimSpace(s[10:j])
			if len(d) > 1 && d[0] == '\'' && d[len(d)-1] == '\'' {
				d = strings.ReplaceAll(d[1:len(d)-1], "''", "'")
			}
			if d == "" {
				return nil, "", false
			}
			delim, cs = unesc(d), nil
			i += e
		default:
			return nil, "", false
		}
	}
}

// headerDirective: "-- atlas:delimiter <d>" on the first line (independent reading of the
// documented header `-- atlas:delimiter` + spaces + printable ASCII; the delimiter is that
// printable run with \n \r \t unescaped; the whole first line is the header).
func headerDirective(in string) (delim string, n int, ok bool) {
	const h = "-- atlas:delimiter "
	if !strings.HasPrefix(in, h) {
		return "", 0, false
	}
	i := strings.IndexByte(in, '\n')
	if i < 0 {
		return "", 0, false
	}
	d := strings.TrimLeft(in[len(h):i], " ")
	for k := 0; k < len(d); k++ {
		if d[k] < ' ' || d[k] > '~' {
			d = d[:k]
			break
		}
	}
	if d == "" {
		return "", 0, false
	}
	return unesc(d), i + 1, true
}

func unesc(d string) string {
	return strings.NewReplacer(`\n`, "\n", `\r`, "\r", `\t`, "\t").Replace(d)
}

type gapper struct {
	in   string
	hash bool
	memo map[string]bool
	gocmd bool // GoCommand sets (round 5): a GO batch separator at a line start is a gap segment
}

// gap returns the delimiters in force after input[from:to] when that range can be read as a
// sequence of: a Unicode space | the delimiter in force | a terminated comment | a
// DELIMITER command line (at the start of a line or of the gap). nil = cannot.
func (g *gapper) gap(from, to int, delim string, first bool) []string {
	res := map[string]bool{}
	seen := map[string]bool{}
	var rec func(i int, d string, lineStart bool)
	rec = func(i int, d string, lineStart bool) {
		k := fmt.Sprintf("%d\x00%s\x00%v", i, d, lineStart)
		if seen[k] {
			return
		}
		seen[k] = true
		if i == to {
			res[d] = true
			return
		}
		s := g.in[i:to]
		if strings.HasPrefix(s, d) {
			rec(i+len(d), d, true)
		}
		if r, w := utf8.DecodeRuneInString(s); unicode.IsSpace(r) {
			rec(i+w, d, lineStart || r == '\n')
		}
		if strings.HasPrefix(s, "--") || (g.hash && strings.HasPrefix(s, "#")) {
			if j := strings.IndexByte(s, '\n'); j >= 0 {
				rec(i+j+1, d, true)
			} else if i+len(s) == len(g.in) {
				rec(to, d, true)
			}
		}
		if strings.HasPrefix(s, "/*") {
			if j := strings.Index(s[2:], "*/"); j >= 0 {
				rec(i+2+j+2, d, false)
			}
		}
		if g.gocmd && lineStart && len(s) >= 2 && strings.EqualFold(s[:2], "GO") {
			if n := goLen(g.in[i:]); n > 0 && i+n <= to {
				rec(i+n, d, true)
			}
		}
		if len(s) > 10 && strings.EqualFold(s[:10], "delimiter ") {
			j := strings.IndexByte(s, '\n')
			e := j + 1
			if j < 0 {
				j, e = len(s), len(s)
				if to != len(g.in) {
					return
				}
			}
			nd := strings.TrimSpace(s[10:j])
			if len(nd) > 1 && nd[0] == '\'' && nd[len(nd)-1] == '\'' {
				nd = strings.ReplaceAll(nd[1:len(nd)-1], "''", "'")
			}
			if nd != "" {
				rec(i+e, unesc(nd), true)
			}
		}
	}
	rec(from, delim, true)
	var out []string
	for d := range res {
		out = append(out, d)
	}
	return out
}

// goLen: the length of the GO batch separator at the start of s as the scanner consumes it ("GO", then -
// only if a blank follows - the rest of the line with its newline); 0 = no separator here.
func goLen(s string) int {
	if len(s) < 2 || !strings.EqualFold(s[:2], "GO") {
		return 0
	}
	if len(s) == 2 {
		return 2
	}
	if s[2] == ' ' {
		if j := strings.IndexByte(s, '\n'); j >= 0 {
			return j + 1
		}
		return len(s)
	}
	if s[2] == '\t' || s[2] == '\n' || s[2] == '\f' || s[2] == '\r' {
		return 2
	}
	return 0
}

// unshiftGo (round 5; theorem C08_lossless_all_options_except): with GoCommand the reported Pos of a statement
// that ends at a GO separator is its offset plus the length of that separator. Returns the statements with the
// offsets corrected, how many were shifted, and false when some Text is neither at its Pos nor explained that way.
func unshiftGo(in string, r scanRes) (scanRes, int, bool) {
	out := r
	out.stmts = nil
	shifted := 0
	for _, s := range r.stmts {
		c := *s
		if s.Pos >= 0 && s.Pos+len(s.Text) <= len(in) && in[s.Pos:s.Pos+len(s.Text)] == s.Text && goLen(in[skipWS(in, s.Pos+len(s.Text), len(in)):]) == 0 {
			out.stmts = append(out.stmts, &c)
			continue
		}
		found := false
		for p0 := s.Pos; p0 >= 0 && p0 >= s.Pos-4096 && !found; p0-- {
			if p0+len(s.Text) > len(in) || in[p0:p0+len(s.Text)] != s.Text {
				continue
			}
			j := skipWS(in, p0+len(s.Text), len(in))
			if n := goLen(in[j:]); n > 0 && p0+n == s.Pos {
				c.Pos, found = p0, true
				if n > 0 && p0 != s.Pos {
					shifted++
				}
			}
		}
		if !found {
			if s.Pos >= 0 && s.Pos+len(s.Text) <= len(in) && in[s.Pos:s.Pos+len(s.Text)] == s.Text {
				found = true // at its Pos, a GO follows but belongs to the next (empty) statement
			} else {
				return r, 0, false
			}
		}
		out.stmts = append(out.stmts, &c)
	}
	return out, shifted, true
}
