package main

import (
	"fmt"
	"strings"

	"ariga.io/atlas/sql/migrate"

	"verifharness/internal/out"
)

// stage "directive" (round 5): Stmt.Directive(name) on the statements the real scanner returns -
// the composition scanner -> comment group -> directive extraction that `atlas:nolint`, `atlas:txmode`
// and friends go through. case = <10 option bits> <hex name> <hex input>;
// observation = ok n Pos:dir,dir.. | err | panic.
// Oracle (on the Go result): every directive returned for a statement is found, as written, in one of
// the statement's own comments, after "atlas:<name>"; a statement without comments has none.
func genDirective(w *out.W, tier string) {
	w.Rule = "non-trivial = at least one statement carries at least one directive of the name asked for"
	w.Exhaust = true
	toks := []string{
		"-- atlas:nolint\n", "--atlas:nolint DS102 DS103\n", "# atlas:txmode none\n", "/* atlas:nolint */", "/*atlas:nolint x*/\n",
		"-- x atlas:nolint a atlas:txmode b\n", "-- atlas:nolint\tDS102\n", "/* atlas:nolint\n */", "\n", " ", "SELECT 1;\n", "SELECT /* atlas:nolint */ 2; -- atlas:nolint q\n",
		"-- atlas:txmode  all  \n", "DELIMITER $$\n", "-- atlas:nolintx\n",
	}
	maxLen := 3
	if tier == "thorough" {
		maxLen = 4
	}
	drv := driverOptSets()
	sets := []optSet{drv[0], drv[1]} // generic, mysql (hash comments)
	names := []string{"nolint", "txmode"}
	n := 0
	before := 0
	one := func(in string) {
		for _, os := range sets {
			for _, name := range names {
				n++
				id := fmt.Sprintf("d%d", n)
				obs, viol, nt := runDirective(os, name, in)
				w.Case(id, bits(os.o)+" "+hx(name)+" "+hx(in), []string{obs})
				w.Count("opts/" + os.name)
				if nt {
					w.NonTrivial(os.name + "\x00" + name + "\x00" + in)
				}
				if fileAndStmt > before {
					w.Count("obs/header-block-is-file-directive-and-first-statement-directive (not judged)")
				}
				before = fileAndStmt
				for _, v := range viol {
					w.Violation(id, "directive", fmt.Sprintf("opts=%s name=%s input=%q: %s", os.name, name, in, v))
				}
			}
		}
	}
	var rec func(prefix string, k int)
	rec = func(prefix string, k int) {
		one(prefix)
		if k == 0 {
			return
		}
		for _, t := range toks {
			rec(prefix+t, k-1)
		}
	}
	rec("", maxLen)
	// a statement after every sequence of two comment tokens (comment groups of size 2 with / without the blank line)
	for _, a := range toks[:8] {
		for _, b := range toks[:8] {
			for _, sep := range []string{"", "\n", " \n", "\n\n"} {
				one(a + sep + b + "SELECT 3;")
				one(a + b + sep + "SELECT 3;")
			}
		}
	}
}

var fileAndStmt int

func runDirective(os optSet, name, in string) (obs string, viol []string, nontrivial bool) {
	defer func() {
		if p := recover(); p != nil {
			obs, viol = "panic", []string{fmt.Sprint("panic: ", p)}
		}
	}()
	stmts, err := (&migrate.Scanner{ScannerOptions: os.o}).Scan(in)
	if err != nil {
		return errCanon(err), nil, false
	}
	var b strings.Builder
	fmt.Fprintf(&b, "ok %d", len(stmts))
	for i, s := range stmts {
		ds := s.Directive(name)
		p := make([]string, len(ds))
		for k, d := range ds {
			p[k] = hx(d)
			found := false
			for _, c := range s.Comments {
				if j := strings.LastIndex(c, "atlas:"+name); j >= 0 && strings.Contains(c[j+len("atlas:"+name):], d) {
					found = true
				}
			}
			if !found {
				viol = append(viol, fmt.Sprintf("stmt %d: directive %q is not in its own comments %q", i, d, s.Comments))
			}
		}
		if len(ds) > 0 {
			nontrivial = true
		}
		if len(s.Comments) == 0 && len(ds) > 0 {
			viol = append(viol, fmt.Sprintf("stmt %d has no comments but directives %q", i, ds))
		}
		cs := "-"
		if len(p) > 0 {
			cs = strings.Join(p, ",")
		}
		fmt.Fprintf(&b, " %d:%s", s.Pos, cs)
	}
	// file level (observation only, counted, not judged - it is not part of C08): LocalFile.Directive reads the header
	// block with its own rule (a line of blanks detaches it; "#" lines always count as comments); when it returns
	// something although the scanner attached the same first line to the first statement, the directive is both a
	// file directive and a statement directive.
	f := migrate.NewLocalFile("1.sql", []byte(in))
	if fd := f.Directive(name); len(fd) > 0 && len(stmts) > 0 && len(stmts[0].Comments) > 0 && strings.HasPrefix(in, stmts[0].Comments[0]) {
		fileAndStmt++
	}
	return b.String(), viol, nontrivial
}
