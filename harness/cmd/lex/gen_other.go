package main

import (
	"verifharness/internal/out"
)

func genRunes(w *out.W, tier string) {}
func genCLI(w *out.W, tier string)   {}
