package main

import (
	"bytes"
	"fmt"
	"os"
	"path/filepath"
	"sort"
	"strconv"
	"strings"
	"time"
	"unicode"
	"unicode/utf8"

	"ariga.io/atlas/sql/migrate"
	"ariga.io/atlas/sql/sqlite"
	"ariga.io/atlas/sql/postgres"
	"ariga.io/atlas/sql/mysql"

	"verifharness/internal/clirun"
	"verifharness/internal/out"
	"verifharness/internal/rng"
)

// ---- runes: utf8.DecodeRuneInString / unicode.IsSpace trimming vs the model's tables ----------

func genRunes(w *out.W, tier string) {
	w.Rule = "non-trivial = the byte string is not plain ASCII (multi-byte, invalid or white-space handling is exercised)"
	w.Exhaust = true
	n := 0
	seen := map[string]bool{}
	one := func(b string) {
		if seen[b] {
			return
		}
		seen[b] = true
		n++
		id := fmt.Sprintf("r%d", n)
		r, wd := utf8.DecodeRuneInString(b)
		tl := len(strings.TrimLeftFunc(b, unicode.IsSpace))
		tr := len(strings.TrimRightFunc(b, unicode.IsSpace))
		if ts := strings.TrimSpace(b); ts != strings.TrimRightFunc(strings.TrimLeftFunc(b, unicode.IsSpace), unicode.IsSpace) {
			w.Violation(id, "go-trimspace", fmt.Sprintf("TrimSpace(%q) differs from TrimRight(TrimLeft)", b))
		}
		w.Case(id, hx(b), []string{fmt.Sprintf("r=%d w=%d tl=%d tr=%d", r, wd, tl, tr)})
		for i := 0; i < len(b); i++ {
			if b[i] >= 0x80 {
				w.NonTrivial(b)
				break
			}
		}
	}
	ctx := func(b string) {
		one(b)
		one(b + "x")
		one("x" + b)
		one(" " + b + " ")
		one(b + b)
	}
	one("")
	maxRune := 0x3100
	if tier == "thorough" {
		maxRune = 0x11000
	}
	for r := 0; r <= maxRune; r++ {
		ctx(string(rune(r)))
	}
	for _, r := range []rune{0xD7FF, 0xE000, 0xFEFF, 0xFFFD, 0xFFFF, 0x10000, 0x1F600, 0x10FFFF} {
		ctx(string(r))
	}
	// every 1- and 2-byte string, and 3/4-byte strings around the decoder's range limits
	for a := 0; a < 256; a++ {
		one(string([]byte{byte(a)}))
		for b := 0; b < 256; b++ {
			if tier == "thorough" || a >= 0xC0 || b%8 == 0 {
				one(string([]byte{byte(a), byte(b)}))
			}
		}
	}
	lead := []byte{0xE0, 0xE1, 0xE2, 0xE3, 0xEC, 0xED, 0xEE, 0xEF, 0xF0, 0xF1, 0xF3, 0xF4, 0xF5, 0xC2}
	edge := []byte{0x00, 0x7F, 0x80, 0x81, 0x85, 0x8A, 0x8B, 0x8F, 0x90, 0x9A, 0x9F, 0xA0, 0xA8, 0xA9, 0xAA, 0xAF, 0xBF, 0xC0}
	for _, a := range lead {
		for _, b := range edge {
			for _, c := range edge {
				ctx(string([]byte{a, b, c}))
				for _, d := range []byte{0x7F, 0x80, 0xBF, 0xC0} {
					one(string([]byte{a, b, c, d}))
				}
			}
		}
	}
}

// ---- cli: FileReport.Line through the real `atlas migrate lint` ------------------------------

// genCLI writes migration directories whose last file drops tables at known offsets, runs the
// real CLI with a template that prints `Pos:Line(Pos)` for every diagnostic (FileReport.Line
// is internal to cmd/atlas, the CLI is the only way to call it) and checks that every
// reported position is the offset of a DROP statement and that its line is the 1-based line
// of that offset (counted by the generator while it wrote the text).
func genCLI(w *out.W, tier string) {
	w.Rule = "non-trivial = the linted file has at least one statement not on line 1 (comment, blank line, header or multi-line statement before it)"
	r := rng.FromEnv(0xC08C)
	nfiles := 30
	if tier == "thorough" {
		nfiles = 300
	}
	root, err := os.MkdirTemp("", "lexcli")
	if err != nil {
		panic(err)
	}
	defer os.RemoveAll(root)
	const tmpl = `{{ range .Files }}{{ $f := . }}{{ range .Reports }}{{ range .Diagnostics }}{{ .Pos }}:{{ $f.Line .Pos }} {{ end }}{{ end }}{{ end }}`
	n := 0
	var texts []string
	defer driverReuse(w)
	defer func() {
		fileReuse(w, append(texts, "A;\nB;\n", "-- c\nA;\n\n-- d\nB;\n", "-- header\n\nCREATE TABLE t (\n  id int\n);\nDROP TABLE t;\n", ""))
	}()
	for fi := 0; fi < nfiles; fi++ {
		text, drops := genLintFile(r, fi)
		if fi%4 == 3 { // the same file as a CRLF checkout has it
			text, drops = crlf(text, drops)
		}
		texts = append(texts, text)
		dir := filepath.Join(root, fmt.Sprintf("d%d", fi))
		var base strings.Builder
		for i := 0; i < 6; i++ {
			fmt.Fprintf(&base, "CREATE TABLE t%d (id int);\n", i)
		}
		if err := clirun.WriteDir(dir, map[string]string{"1_base.sql": base.String(), "2_drop.sql": text}); err != nil {
			panic(err)
		}
		t0 := time.Now()
		res := clirun.Run(dir, nil, "migrate", "lint", "--dir", "file://"+dir, "--dev-url", "sqlite://dev?mode=memory", "--latest", "1", "--format", tmpl)
		fid := fmt.Sprintf("f%d", fi)
		if time.Since(t0) > 60*time.Second {
			// the CLI did not come back (clirun kills it after 120 s): termination clause; stop the stage.
			w.Violation(fid, "hang", fmt.Sprintf("atlas migrate lint did not return within %s on %q", time.Since(t0).Round(time.Second), text))
			return
		}
		got := map[int]int{}
		for _, p := range strings.Fields(res.Stdout) {
			a := strings.SplitN(p, ":", 2)
			if len(a) != 2 {
				continue
			}
			pos, e1 := strconv.Atoi(a[0])
			ln, e2 := strconv.Atoi(a[1])
			if e1 == nil && e2 == nil {
				got[pos] = ln
			}
		}
		if res.Exit != 1 || len(got) == 0 {
			w.Violation(fid, "cli-lint-failed", fmt.Sprintf("exit=%d stdout=%q stderr=%q file=%q", res.Exit, res.Stdout, res.Stderr, text))
			continue
		}
		var ps []int
		for p := range got {
			ps = append(ps, p)
		}
		sort.Ints(ps)
		for _, p := range ps {
			n++
			id := fmt.Sprintf("%s.%d", fid, n)
			w.Case(id, hx(text)+" "+strconv.Itoa(p), []string{fmt.Sprintf("line %d", got[p])})
			want, ok := drops[p]
			switch {
			case !ok:
				w.Violation(id, "lint-pos", fmt.Sprintf("diagnostic at Pos %d, which is not the offset of a DROP statement (%v) in %q", p, drops, text))
			case want != got[p]:
				w.Violation(id, "lint-line", fmt.Sprintf("Pos %d is on line %d, lint reports L%d in %q", p, want, got[p], text))
			}
			if want > 1 {
				w.NonTrivial(id)
			}
			w.Count(fmt.Sprintf("line/%d", min(want, 9)))
		}
		for p, ln := range drops {
			if _, ok := got[p]; !ok {
				w.Violation(fid, "lint-missing", fmt.Sprintf("no diagnostic for the DROP at offset %d (line %d); got %v in %q", p, ln, got, text))
			}
		}
	}
}

// genLintFile returns a migration file and the offset -> line of each DROP TABLE statement.
func genLintFile(r *rng.R, fi int) (string, map[int]int) {
	var b strings.Builder
	line := 1
	add := func(s string) {
		b.WriteString(s)
		line += strings.Count(s, "\n")
	}
	if fi%4 == 3 {
		// a long run of short lines in front (this file is written with CRLF line ends): an offset that is off by
		// one byte per preceding line then lands on another line
		for i := 0; i < 25+r.Intn(15); i++ {
			add("--\n")
		}
		add("\n")
	}
	delim := ";"
	if fi%3 == 1 {
		d := rng.Pick(r, []string{"$$", "//", ";;", "\\t"})
		add("-- atlas:delimiter " + d + "\n")
		delim = unesc(d)
		if r.Chance(1, 2) {
			add("\n")
		}
	}
	drops := map[int]int{}
	k := 1 + r.Intn(4)
	for i := 0; i < k; i++ {
		for j := r.Intn(4); j > 0; j-- {
			add(rng.Pick(r, []string{"\n", "  \n", "-- a comment\n", "/* block\n comment */\n", "-- it's; here\n", "\r\n", "\t", "-- atlas:nolint XX1\n", "-- caf\u00e9 \u65e5\u672c\u8a9e \u00a0\n", "\r", "/* \u00fc */\r"}))
		}
		drops[b.Len()] = line
		add(rng.Pick(r, []string{"DROP TABLE t%d", "DROP TABLE\n t%d", "DROP\n\n TABLE t%d -- why\n", "DROP TABLE t%d /* a\nb */"}))
		s := b.String()
		b.Reset()
		b.WriteString(fmt.Sprintf(s, i))
		add(delim)
		add(rng.Pick(r, []string{"\n", "\n\n", " ", "\n"}))
	}
	return b.String(), drops
}

// fileReuse: what a *migrate.LocalFile reports must be a function of its current bytes. The same file value is
// scanned, given a header directive (AddDirective prepends a line, as WriteCheckpoint / `migrate checkpoint` and
// the checkpoint tagging do), and scanned again: statements, positions, texts and comments must equal those of a
// new LocalFile built from the same final bytes; and every statement must be found at its Pos in Bytes().
func fileReuse(w *out.W, texts []string) {
	canon := func(ss []*migrate.Stmt, err error) string {
		if err != nil {
			return "err"
		}
		var b strings.Builder
		for _, s := range ss {
			fmt.Fprintf(&b, "%d:%s:%s|", s.Pos, hx(s.Text), hx(strings.Join(s.Comments, "\x00")))
		}
		return b.String()
	}
	dirs := [][]string{{"checkpoint"}, {"checkpoint", "v1"}, {"nolint"}, {"txmode", "none"}, {"delimiter", "\\n\\n"}}
	for ti, text := range texts {
		for di, d := range dirs {
			id := fmt.Sprintf("reuse%d.%d", ti, di)
			f := migrate.NewLocalFile("1_f.sql", []byte(text))
			d1, e1 := f.StmtDecls()
			_, _ = f.Stmts()
			f.AddDirective(d[0], d[1:]...)
			d2, e2 := f.StmtDecls()
			t2, e2t := f.Stmts()
			g := migrate.NewLocalFile("1_f.sql", append([]byte(nil), f.Bytes()...))
			d3, e3 := g.StmtDecls()
			t3, e3t := g.Stmts()
			w.ImplOnly(id, fmt.Sprintf("scan, AddDirective(%v), scan again vs a new file with the same bytes: %q", d, text))
			w.Count("file-reuse")
			if len(d1) > 0 && e1 == nil {
				w.NonTrivial(id)
			}
			if a, b := canon(d2, e2), canon(d3, e3); a != b {
				w.Violation(id, "file-reuse-stale", fmt.Sprintf("after AddDirective(%v) the same LocalFile reports %s, a new LocalFile over the same bytes reports %s; file before: %q", d, a, b, text))
				continue
			}
			if fmt.Sprint(t2, e2t) != fmt.Sprint(t3, e3t) {
				w.Violation(id, "file-reuse-stale", fmt.Sprintf("after AddDirective(%v) Stmts() of the same LocalFile = %q, of a new one = %q; file before: %q", d, t2, t3, text))
				continue
			}
			if e2 == nil && d[0] != "delimiter" {
				for _, s := range d2 {
					if !bytes.HasPrefix(f.Bytes()[min(s.Pos, len(f.Bytes())):], []byte(s.Text)) {
						w.Violation(id, "file-reuse-pos", fmt.Sprintf("after AddDirective(%v): statement %q is not at Pos %d of the file's bytes %q", d, s.Text, s.Pos, f.Bytes()))
						break
					}
				}
			}
		}
	}
}

// crlf rewrites a lint file with CRLF line ends and moves the offsets of its DROP statements accordingly
// (the line of each statement does not change).
func crlf(text string, drops map[int]int) (string, map[int]int) {
	var b strings.Builder
	newOff := make(map[int]int, len(drops))
	for i := 0; i < len(text); i++ {
		if _, ok := drops[i]; ok {
			newOff[b.Len()] = drops[i]
		}
		if text[i] == '\n' && (i == 0 || text[i-1] != '\r') {
			b.WriteByte('\r')
		}
		b.WriteByte(text[i])
	}
	return b.String(), newOff
}

// driverReuse: the statements a driver's ScanStmts returns for an input are a function of that input. One
// driver value scans input A (which ends with a pending comment group, switches the delimiter, or fails) and
// then input B: B's statements, positions, texts and comments must equal those a driver value that never saw A
// returns, for every dialect.
func driverReuse(w *out.W) {
	canon := func(ss []*migrate.Stmt, err error) string {
		if err != nil {
			return "err:" + errCanon(err)
		}
		var b strings.Builder
		for _, s := range ss {
			fmt.Fprintf(&b, "%d:%s:%s|", s.Pos, hx(s.Text), hx(strings.Join(s.Comments, "\x00")))
		}
		return b.String()
	}
	as := []string{
		"A;\n-- atlas:nolint destructive\n", "A;\n-- trailing\n-- group\n", "-- atlas:delimiter $$\nA$$\nB$$\n", "DELIMITER //\nA//\nB//\n",
		"A;\n-- c\n'unclosed", "A;\n/* never closed", "A;\n-- c\n(", "BEGIN\nA;", "-- only a comment\n", "",
	}
	bs := []string{"A;\nB;\n", "DROP TABLE t;\nCREATE TABLE u (id int);\n", "-- own\nA;\n\n-- second\nB;\n", "A$$B;\n", "A//\nB;\n"}
	type scanner interface {
		ScanStmts(string) ([]*migrate.Stmt, error)
	}
	mk := map[string]func() scanner{
		"mysql":    func() scanner { return &mysql.Driver{} },
		"postgres": func() scanner { return &postgres.Driver{} },
		"sqlite":   func() scanner { return &sqlite.Driver{} },
	}
	n := 0
	for _, name := range []string{"mysql", "postgres", "sqlite"} {
		for ai, a := range as {
			for bi, bIn := range bs {
				n++
				id := fmt.Sprintf("drvreuse-%s-%d-%d", name, ai, bi)
				used := mk[name]()
				func() {
					defer func() { recover() }()
					used.ScanStmts(a)
				}()
				var got, want string
				func() {
					defer func() {
						if r := recover(); r != nil {
							got = "panic"
						}
					}()
					got = canon(used.ScanStmts(bIn))
				}()
				func() {
					defer func() {
						if r := recover(); r != nil {
							want = "panic"
						}
					}()
					want = canon(mk[name]().ScanStmts(bIn))
				}()
				w.ImplOnly(id, fmt.Sprintf("%s driver: scan %q, then %q", name, a, bIn))
				w.Count("driver-reuse")
				if ai < 8 {
					w.NonTrivial(id)
				}
				if got != want {
					w.Violation(id, "driver-scan-depends-on-history", fmt.Sprintf("%s driver: after scanning %q, the input %q scans to %s; a driver value that never saw the first input gives %s", name, a, bIn, got, want))
				}
			}
		}
	}
}
