// Command lex generates inputs for property C08 (the statement scanner is
// total, lossless and position-accurate), runs them on the real
// sql/migrate.Scanner and the drivers' ScanStmts, writes the model's input
// and the implementation's observations, and evaluates the property's oracle
// (no panic / hang, Text at Pos, increasing and disjoint positions, gaps made
// of white space / comments / delimiters / delimiter commands only, line
// mapping) directly on what the real code returned.
//
// modes: scan (API), runes (utf8 / unicode.IsSpace tables), cli (FileReport.Line
// through the real `atlas migrate lint`), gen (writes Gen_ScanOpts.v).
package main

import (
	"flag"
	"fmt"
	"os"

	"verifharness/internal/out"
)

func main() {
	mode := flag.String("mode", "scan", "scan|runes|cli|directive|gen")
	tier := flag.String("tier", "quick", "quick|thorough")
	outDir := flag.String("out", "", "output directory")
	flag.Parse()
	if *outDir == "" {
		fmt.Fprintln(os.Stderr, "missing -out")
		os.Exit(2)
	}
	if *mode == "gen" {
		if err := writeGen(*outDir); err != nil {
			fmt.Fprintln(os.Stderr, err)
			os.Exit(1)
		}
		return
	}
	w := out.New(*outDir)
	w.Samples = []string{} // never null in stats.json (the driver slices it)
	defer w.Close()
	switch *mode {
	case "scan":
		genScan(w, *tier)
	case "runes":
		genRunes(w, *tier)
	case "cli":
		genCLI(w, *tier)
	case "directive":
		genDirective(w, *tier)
	default:
		fmt.Fprintln(os.Stderr, "unknown mode")
		os.Exit(2)
	}
}
