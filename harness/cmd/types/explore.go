package main

import (
	"fmt"

	"ariga.io/atlas/sql/schema"
)

// explore prints the observation of a few types (development aid, not a stage).
func explore(args []string) {
	d := "sqlite"
	if len(args) > 0 {
		d = args[0]
	}
	for _, o := range pickOps(d) {
		for _, t := range gridTypes(o, "quick") {
			r := o.observe(t.t)
			fmt.Println(o.name, showType(t.t))
			for _, l := range r.lines() {
				fmt.Println("   ", l)
			}
			fmt.Printf("    fmt=%q hcl=%q diff=%s %d/%d bytes2=%v\n", r.fmtS, r.hclExpr, r.diffSt, r.diffFwd, r.diffBack, r.back2Bytes)
		}
	}
}

var _ schema.Type
