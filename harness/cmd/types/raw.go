package main

// Raw column type texts for postgres.ParseType (tie of the hand matchers for
// reArray / reInterval and of parseColumn/columnType on arbitrary input):
// exhaustive token sequences over small alphabets + name x suffix products.

import (
	"fmt"
	"strings"

	"verifharness/internal/out"
)

func seqs(tokens []string, maxLen int, keep func([]string) bool) []string {
	var res []string
	var rec func(cur []string)
	rec = func(cur []string) {
		if len(cur) > 0 && (keep == nil || keep(cur)) {
			res = append(res, strings.Join(cur, ""))
		}
		if len(cur) == maxLen {
			return
		}
		for _, t := range tokens {
			rec(append(append([]string{}, cur...), t))
		}
	}
	rec(nil)
	return res
}

func pgRawTexts(tier string) []string {
	seen := map[string]bool{}
	var res []string
	add := func(ss ...string) {
		for _, s := range ss {
			if !seen[s] {
				seen[s] = true
				res = append(res, s)
			}
		}
	}
	add("", " ", "()", ",", "  ", "array", "ARRAY", "Array", "int[", "int]", "[]", " []", "[] ", "a\n[]", "a[]\n", "\nint[]", "a\nb []", "int [ 3 ][4] ", "int ARRAY[3]ARRAY", "int ARRAY[3] ARRAY",
		"int  ARRAY  [ ] [ ]  array", "intARRAY", "int arrayx", "varchar(x)[]", "varchar(5)[]", "character varying(5)[][]", "int[] ARRAY", "a[] ARRAY[]", "a[] array array",
		"interval year to second", "interval second (3)", "interval(3) second", "interval  day  to  hour", "interval day to\thour", "interval\tyear", "intervalyear", "interval year(7)", "interval (6)",
		"interval hour to", "INTERVAL YEAR", "interval YEAR TO MONTH (2)", "interval yearx", "interval x year", "interval minute to second(0)", "interval\nday", "interval\fday", "interval\vday")
	an, in := 4, 3
	if tier == "thorough" {
		an, in = 5, 4
	}
	add(seqs([]string{"int", " ", "[", "]", "3", "ARRAY", "array", "\n", "[]", "x"}, an, nil)...)
	ivTok := []string{"interval", " ", "year", "SECOND", "to", "month", "(3)", "(7)", "day", "x", "\t", "minute to second", "INTERVAL"}
	add(seqs(ivTok, in, nil)...)
	add(seqs(ivTok, in+1, func(c []string) bool { return len(c) == in+1 && strings.ToLower(c[0]) == "interval" })...)
	names := []string{"varchar", "char", "character", "character varying", "decimal", "numeric", "float", "bit", "bit varying", "float8", "float4", "real", "time", "timetz",
		"timestamp", "timestamptz", "time with time zone", "timestamp without time zone", "interval", "int", "foo", "double precision", "double", "date", "VARCHAR", "Time", "serial", "money", "bpchar", "name", "array", "user-defined"}
	sfx := []string{"", "(3)", "(0)", "(10,2)", "(x)", "(-1)", " (3)", "(3) with time zone", " with time zone", " without time zone", "(3,x)", "()", "(3)(4)", " varying", " varying(5)", " varying (x)", "(+7)", "(3a)", "[]", "(3)[]",
		" ARRAY", "  ", "(6)", "(7) with time zone", " 5", ",5", "(10, 2)"}
	for _, n := range names {
		for _, s := range sfx {
			add(n + s)
		}
	}
	for _, o := range pickOps("all") {
		add(crossNames(o)...)
		add(rawTypes(o)...)
	}
	return res
}

// runRawPg: one case per text; observation = ParseType outcome + FormatType of the result.
func runRawPg(w *out.W, tier string) {
	o := pickOps("postgres")[0]
	for i, s := range pgRawTexts(tier) {
		id := fmt.Sprintf("r-%05d", i+1)
		t, st := o.parseSafe(s)
		obs := "parse=" + st
		f := "fmt=-"
		if st == "ok" {
			obs += ":" + showType(t)
			fs, fst := o.fmtSafe(t)
			f = "fmt=" + fst
			if fst == "ok" {
				f += ":" + hx(fs)
			}
		}
		w.Case(id, "pgraw "+hx(s), []string{obs + " " + f})
		w.Count("pgraw/parse/" + st)
		if st != "ok" || strings.ContainsAny(s, "[]() \n") {
			w.NonTrivial("pgraw" + s)
		}
	}
}
