package main

// The type grid: every registered spec x parameter grid (origin "spec"),
// ParseType results of raw column types (origin "raw"), and every type class
// x a list of names incl. unknown / upper-case / parameterised ones
// (origin "cross": model tie only; these are not types of the dialect).

import (
	"reflect"
	"strings"

	"github.com/go-openapi/inflect"

	"ariga.io/atlas/sql/mysql"
	"ariga.io/atlas/sql/postgres"
	"ariga.io/atlas/sql/schema"
	"ariga.io/atlas/sql/sqlite"
)

type gtype struct {
	t      schema.Type
	origin string
}

var (
	intGridQuick    = []int64{0, 1, 2, 6, 10, 24, 25, 53, 54, 255, 65535}
	intGridThorough = []int64{-1, 0, 1, 2, 3, 6, 7, 9, 10, 11, 23, 24, 25, 52, 53, 54, 99, 100, 255, 256, 1000, 65535, 65536, 4294967295}
	ptrGrid         = []int64{-1 /* nil */, 0, 1, 3, 6, 7}
	valuesGrid      = [][]string{
		nil, {"a"}, {"a", "b"}, {""}, {"it's"}, {"a,b", "c"}, {"a','b"}, {"'q'"}, {`"d"`}, {"x'"}, {"'y"}, {"A B", "c)"}, {`back\slash`, "ü"}, {","}, {",", "b"}, {"a", ",", "b"}, {",x", "y,"},
	}
)

// clone returns a pointer to a copy of the struct t points to.
func clone(t schema.Type) reflect.Value {
	rv := reflect.ValueOf(t).Elem()
	n := reflect.New(rv.Type())
	n.Elem().Set(rv)
	return n
}

// variants enumerates the parameter grid over the int / *int / bool /
// []string fields of t0 (full product for <=2 numeric fields).
func variants(t0 schema.Type, tier string, only map[string]bool) []schema.Type {
	ig := intGridQuick
	if tier == "thorough" {
		ig = intGridThorough
	}
	res := []schema.Type{t0}
	rt := reflect.TypeOf(t0).Elem()
	for i := 0; i < rt.NumField(); i++ {
		f := rt.Field(i)
		if !f.IsExported() || f.Anonymous || f.Name == "T" {
			continue
		}
		if only != nil && !only[f.Name] {
			continue
		}
		var next []schema.Type
		set := func(base schema.Type, fn func(reflect.Value)) {
			n := clone(base)
			fn(n.Elem().Field(i))
			next = append(next, n.Interface().(schema.Type))
		}
		switch {
		case f.Type.Kind() == reflect.Int || f.Type.Kind() == reflect.Int64:
			for _, b := range res {
				for _, x := range ig {
					x := x
					set(b, func(v reflect.Value) { v.SetInt(x) })
				}
			}
		case f.Type.Kind() == reflect.Bool:
			for _, b := range res {
				for _, x := range []bool{false, true} {
					x := x
					set(b, func(v reflect.Value) { v.SetBool(x) })
				}
			}
		case f.Type.Kind() == reflect.Ptr && f.Type.Elem().Kind() == reflect.Int:
			for _, b := range res {
				for _, x := range ptrGrid {
					x := x
					set(b, func(v reflect.Value) {
						if x < 0 {
							v.Set(reflect.Zero(f.Type))
						} else {
							p := int(x)
							v.Set(reflect.ValueOf(&p))
						}
					})
				}
			}
		case f.Type.Kind() == reflect.Slice && f.Type.Elem().Kind() == reflect.String:
			for _, b := range res {
				for _, x := range valuesGrid {
					x := x
					set(b, func(v reflect.Value) {
						if x == nil {
							v.Set(reflect.Zero(f.Type))
						} else {
							v.Set(reflect.ValueOf(append([]string{}, x...)))
						}
					})
				}
			}
		case f.Type.Kind() == reflect.String && f.Name == "F": // postgres IntervalType.F
			for _, b := range res {
				for _, x := range []string{"", "YEAR", "second", "DAY TO SECOND", "MINUTE TO SECOND", "year to month", "bogus"} {
					x := x
					set(b, func(v reflect.Value) { v.SetString(x) })
				}
			}
		default:
			continue
		}
		res = next
	}
	return res
}

// classes returns one zero value of every schema.Type class of the dialect.
func classes(o *dops) []schema.Type {
	common := []schema.Type{
		&schema.BoolType{}, &schema.BinaryType{}, &schema.EnumType{}, &schema.IntegerType{}, &schema.StringType{},
		&schema.TimeType{}, &schema.FloatType{}, &schema.DecimalType{}, &schema.JSONType{}, &schema.SpatialType{},
		&schema.UUIDType{}, &schema.UnsupportedType{},
	}
	switch o.name {
	case "sqlite":
		return append(common, &sqlite.UserDefinedType{})
	case "mysql":
		return append(common, &mysql.BitType{}, &mysql.SetType{}, &mysql.NetworkType{})
	default:
		return append(common, &postgres.ArrayType{}, &postgres.BitType{}, &postgres.IntervalType{}, &postgres.NetworkType{},
			&postgres.CurrencyType{}, &postgres.RangeType{}, &postgres.SerialType{}, &postgres.XMLType{}, &postgres.UserDefinedType{},
			&postgres.OIDType{}, &postgres.TextSearchType{}, &postgres.PseudoType{}, &postgres.DomainType{}, &postgres.CompositeType{})
	}
}

func setT(t schema.Type, name string) schema.Type {
	n := clone(t)
	if f := n.Elem().FieldByName("T"); f.IsValid() && f.Kind() == reflect.String {
		f.SetString(name)
	}
	return n.Interface().(schema.Type)
}

func crossNames(o *dops) []string {
	ns := []string{"", " ", "()", "foo", "FOO", "Foo Bar", "a b c d", "5", "x(3)", "varchar(255)", "VARCHAR", "Int", "BOOL", "int unsigned",
		"decimal(10,2)", "int[]", "enum", "set", "tinyint(1)", "bit varying", "timestamp with time zone", "double precision", " text", "text "}
	for _, s := range o.reg.Specs() {
		ns = append(ns, s.T)
	}
	return ns
}

func rawTypes(o *dops) []string {
	rs := []string{"varchar(255)", "varchar", "char(3)", "char", "decimal(10,2)", "decimal(10)", "decimal", "numeric(5,0)", "float(10)", "float(30)",
		"double", "real", "int", "int(11)", "integer", "bigint(20) unsigned", "tinyint(1)", "blob", "text", "json", "uuid", "date", "datetime(6)", "timestamp(3)", "time"}
	switch o.name {
	case "sqlite":
		rs = append(rs, "VARCHAR(10)", "varying character(5)", "unsigned big int", "native character(70)", "double precision", "numeric(10,5)", "my_type", "MyType(3)", "nvarchar(100)", "clob", "boolean", "jsonb", "Point3D", "GeoJSON", "MyType")
	case "mysql":
		rs = append(rs, "int(10) unsigned zerofill", "int unsigned", "decimal(10,2) unsigned", "float unsigned", "double(10,2)", "bit(8)", "bit", "binary(16)", "binary", "varbinary(255)",
			"enum('a','b')", "set('x','y')", "year(4)", "year", "point", "geometry", "inet6", "longtext", "mediumblob", "bool", "boolean", "tinyint(4)", "varchar(0)", "bit(1)", "binary(1)")
	default:
		rs = append(rs, "character varying(10)", "character varying", "character(5)", "bit varying(3)", "bit(3)", "bit", "timestamp with time zone", "timestamp(3) with time zone",
			"time without time zone", "timetz(2)", "interval", "interval year to month", "interval second(3)", "interval(4)", "int4[]", "text[]", "integer ARRAY", "int[3][3]", "numeric(10,2)[]",
			"double precision", "float8", "float4", "float(53)", "serial", "bigserial", "money", "xml", "tsvector", "int4range", "oid", "regclass", "cidr", "hstore", "my_enum", "bpchar", "name", "xid")
	}
	return rs
}

// gridTypes builds the whole type grid of one dialect.
func gridTypes(o *dops, tier string) []gtype {
	var g []gtype
	seen := map[string]int{}
	add := func(t schema.Type, origin string) {
		k := showType(t)
		if i, ok := seen[k]; ok {
			// a type first met as a model-tie-only variant is a type of the dialect when a spec / raw text yields it
			if (origin == "spec" || origin == "raw") && (g[i].origin == "specx" || g[i].origin == "cross") {
				g[i].origin = origin
			}
			return
		}
		seen[k] = len(g)
		g = append(g, gtype{t, origin})
	}
	// 1. every registered spec x parameter grid; the class is the one ParseType gives to the spec's T.
	for _, s := range o.reg.Specs() {
		t0, st := o.parseSafe(s.T)
		if st != "ok" || t0 == nil {
			continue
		}
		if s.RType != nil { // specs selected by RType (mysql enum/set): build the RType value itself
			t0 = reflect.New(s.RType).Interface().(schema.Type)
			t0 = setT(t0, s.T)
		}
		if o.name == "postgres" && s.ToSpec != nil { // the interval family: the spec name is the interval field
			f := strings.ToUpper(strings.ReplaceAll(s.T, "_", " "))
			if f == "INTERVAL" {
				f = ""
			}
			six := 6
			t0 = &postgres.IntervalType{T: "interval", F: f, Precision: &six}
		}
		// "spec": only the parameters the spec declares vary (these are types of the dialect);
		// "specx": every field varies (model tie only).
		decl := map[string]bool{}
		for _, a := range s.Attributes {
			decl[inflect.Camelize(a.Name)] = true
		}
		for _, v := range variants(t0, tier, decl) {
			if vs := reflect.ValueOf(v).Elem().FieldByName("Values"); vs.IsValid() && vs.Len() == 0 {
				add(v, "specx") // an enum/set without values is not a type
				continue
			}
			if !validParams(o, v) {
				add(v, "specx")
				continue
			}
			add(v, "spec")
		}
		for _, v := range variants(t0, tier, nil) {
			add(v, "specx")
		}
		// the type written with the spec's own name (an alias such as mysql `boolean`, postgres `int4`)
		if s.RType == nil && !(o.name == "postgres" && s.ToSpec != nil) {
			add(setT(t0, s.T), "spec")
		}
	}
	// 2. what inspection produces for raw column types.
	for _, r := range rawTypes(o) {
		if t, st := o.parseSafe(r); st == "ok" && t != nil {
			add(t, "raw")
		}
	}
	// 3. every class x every name (model tie of the switch statements).
	for _, c := range classes(o) {
		for _, n := range crossNames(o) {
			add(setT(c, n), "cross")
		}
	}
	return g
}

// validParams rejects parameter values the database itself rejects (so they are
// not types of the dialect): PostgreSQL time/interval precision > 6, bit(0).
func validParams(o *dops, t schema.Type) bool {
	// negative sizes / precisions are rejected by every database
	rv := reflect.ValueOf(t).Elem()
	for i := 0; i < rv.NumField(); i++ {
		f := rv.Field(i)
		switch {
		case (f.Kind() == reflect.Int || f.Kind() == reflect.Int64) && f.Int() < 0:
			return false
		case f.Kind() == reflect.Ptr && !f.IsNil() && f.Elem().Kind() == reflect.Int && f.Elem().Int() < 0:
			return false
		}
	}
	if o.name != "postgres" {
		return true
	}
	switch t := t.(type) {
	case *schema.TimeType:
		return t.Precision == nil || *t.Precision <= 6
	case *postgres.IntervalType:
		return t.Precision == nil || *t.Precision <= 6
	case *postgres.BitType:
		return !(strings.ToLower(t.T) == "bit" && t.Len == 0)
	}
	return true
}
