package main

// Canonical text of schema.Type values and of schemahcl.Type values; the
// Coq model prints exactly the same text (Hcl/Types*.v: show_ty).

import (
	"encoding/hex"
	"fmt"
	"reflect"
	"sort"
	"strconv"
	"strings"

	"ariga.io/atlas/schemahcl"
	"ariga.io/atlas/sql/schema"

	"github.com/zclconf/go-cty/cty"
)

func hx(s string) string {
	if s == "" {
		return "-"
	}
	return hex.EncodeToString([]byte(s))
}

// showType prints Class{Field=value,...} over the exported fields in
// declaration order. Strings are hex, *int is nil|n, []string is hex:hex,
// nested schema.Type is recursive; *schema.Schema / embedded interfaces /
// funcs are skipped (not observables of the property).
func showType(t schema.Type) string {
	if t == nil {
		return "nil"
	}
	rv := reflect.ValueOf(t)
	if rv.Kind() == reflect.Ptr {
		if rv.IsNil() {
			return "nil"
		}
		rv = rv.Elem()
	}
	rt := rv.Type()
	var fs []string
	for i := 0; i < rt.NumField(); i++ {
		f := rt.Field(i)
		v := rv.Field(i)
		if !f.IsExported() || f.Anonymous {
			continue
		}
		switch {
		case v.Kind() == reflect.String:
			fs = append(fs, f.Name+"="+hx(v.String()))
		case v.Kind() == reflect.Int || v.Kind() == reflect.Int64:
			fs = append(fs, f.Name+"="+strconv.FormatInt(v.Int(), 10))
		case v.Kind() == reflect.Bool:
			fs = append(fs, f.Name+"="+b01(v.Bool()))
		case v.Kind() == reflect.Ptr && v.Type().Elem().Kind() == reflect.Int:
			if v.IsNil() {
				fs = append(fs, f.Name+"=nil")
			} else {
				fs = append(fs, f.Name+"="+strconv.FormatInt(v.Elem().Int(), 10))
			}
		case v.Kind() == reflect.Slice && v.Type().Elem().Kind() == reflect.String:
			var xs []string
			for j := 0; j < v.Len(); j++ {
				xs = append(xs, hx(v.Index(j).String()))
			}
			fs = append(fs, f.Name+"=["+strings.Join(xs, ":")+"]")
		case v.Kind() == reflect.Slice && f.Name == "Attrs":
			var xs []string
			for j := 0; j < v.Len(); j++ {
				xs = append(xs, showAttr(v.Index(j).Interface()))
			}
			fs = append(fs, "Attrs=["+strings.Join(xs, ":")+"]")
		case v.Kind() == reflect.Interface && f.Name == "Type":
			if v.IsNil() {
				fs = append(fs, "Type=nil")
			} else if st, ok := v.Interface().(schema.Type); ok {
				fs = append(fs, "Type="+showType(st))
			}
		}
	}
	return rt.String() + "{" + strings.Join(fs, ",") + "}"
}

func showAttr(a any) string {
	rv := reflect.ValueOf(a)
	if rv.Kind() == reflect.Ptr {
		rv = rv.Elem()
	}
	s := rv.Type().String()
	for i := 0; i < rv.NumField(); i++ {
		v := rv.Field(i)
		switch v.Kind() {
		case reflect.String:
			s += "/" + hx(v.String())
		case reflect.Int:
			s += "/" + strconv.FormatInt(v.Int(), 10)
		}
	}
	return s
}

func b01(b bool) string {
	if b {
		return "1"
	}
	return "0"
}

// showCty prints the value of a type attribute.
func showCty(v cty.Value) string {
	switch {
	case v.IsNull():
		return "null"
	case v.Type() == cty.Number:
		f := v.AsBigFloat()
		if f.IsInt() {
			i, _ := f.Int64()
			return "i" + strconv.FormatInt(i, 10)
		}
		return "f" + f.String()
	case v.Type() == cty.Bool:
		return "b" + b01(v.True())
	case v.Type() == cty.String:
		return "s" + hx(v.AsString())
	case v.Type().IsListType() || v.Type().IsTupleType() || v.Type().IsSetType():
		var xs []string
		for _, e := range v.AsValueSlice() {
			xs = append(xs, showCty(e))
		}
		return "l[" + strings.Join(xs, ":") + "]"
	}
	return "?" + v.Type().FriendlyName()
}

func showHCLType(t *schemahcl.Type) string {
	if t == nil {
		return "nil"
	}
	var as []string
	for _, a := range t.Attrs {
		as = append(as, a.K+"="+showCty(a.V))
	}
	return hx(t.T) + "[" + strings.Join(as, ";") + "]"
}

func sortedKeys[V any](m map[string]V) []string {
	ks := make([]string, 0, len(m))
	for k := range m {
		ks = append(ks, k)
	}
	sort.Strings(ks)
	return ks
}

var _ = fmt.Sprint
