package main

import (
	"bytes"
	"fmt"
	"regexp"
	"strings"

	"ariga.io/atlas/schemahcl"
	"ariga.io/atlas/sql/mysql"
	"ariga.io/atlas/sql/postgres"
	"ariga.io/atlas/sql/schema"
	"ariga.io/atlas/sql/sqlite"

	"github.com/zclconf/go-cty/cty"
)

// dops are the public entry points of one dialect that C15 talks about.
type dops struct {
	name    string
	reg     *schemahcl.TypeRegistry
	format  func(schema.Type) (string, error)
	parse   func(string) (schema.Type, error)
	marshal func(any) ([]byte, error)
	eval    func([]byte, any, map[string]cty.Value) error
	diff    schema.Differ
}

func allOps() []*dops {
	return []*dops{
		{"sqlite", sqlite.TypeRegistry, sqlite.FormatType, sqlite.ParseType, sqlite.MarshalHCL.MarshalSpec, sqlite.EvalHCLBytes, sqlite.DefaultDiff},
		{"mysql", mysql.TypeRegistry, mysql.FormatType, mysql.ParseType, mysql.MarshalHCL.MarshalSpec, mysql.EvalHCLBytes, mysql.DefaultDiff},
		{"postgres", postgres.TypeRegistry, postgres.FormatType, postgres.ParseType, postgres.MarshalHCL.MarshalSpec, postgres.EvalHCLBytes, postgres.DefaultDiff},
	}
}

func pickOps(d string) []*dops {
	var r []*dops
	for _, o := range allOps() {
		if d == "all" || d == o.name {
			r = append(r, o)
		}
	}
	return r
}

// safe wrappers: a Go panic is an outcome.
func (o *dops) fmtSafe(t schema.Type) (s string, st string) {
	defer func() {
		if r := recover(); r != nil {
			s, st = "", "panic"
		}
	}()
	s, err := o.format(t)
	if err != nil {
		return "", "err"
	}
	return s, "ok"
}

func (o *dops) parseSafe(s string) (t schema.Type, st string) {
	defer func() {
		if r := recover(); r != nil {
			t, st = nil, "panic"
		}
	}()
	t, err := o.parse(s)
	if err != nil {
		return nil, "err"
	}
	return t, "ok"
}

func (o *dops) convertSafe(t schema.Type) (h *schemahcl.Type, st string) {
	defer func() {
		if r := recover(); r != nil {
			h, st = nil, "panic"
		}
	}()
	h, err := o.reg.Convert(t)
	if err != nil {
		return nil, "err"
	}
	return h, "ok"
}

// oneColumn builds schema "main"/"public" with table t(c <typ>).
func oneColumn(o *dops, typ schema.Type) *schema.Schema {
	s := schema.New(schemaName(o))
	tb := schema.NewTable("t").AddColumns(&schema.Column{Name: "c", Type: &schema.ColumnType{Type: typ}})
	s.AddTables(tb)
	return s
}

func schemaName(o *dops) string {
	switch o.name {
	case "sqlite":
		return "main"
	case "postgres":
		return "public"
	}
	return "test"
}

var reTypeLine = regexp.MustCompile(`(?m)^\s*type\s*=\s*(.*)$`)

func (o *dops) marshalSafe(s *schema.Schema) (b []byte, st string) {
	defer func() {
		if r := recover(); r != nil {
			b, st = nil, "panic"
		}
	}()
	b, err := o.marshal(s)
	if err != nil {
		return nil, "err"
	}
	return b, "ok"
}

func (o *dops) evalSafe(b []byte) (s *schema.Schema, st string, msg string) {
	defer func() {
		if r := recover(); r != nil {
			s, st, msg = nil, "panic", fmt.Sprint(r)
		}
	}()
	var sc schema.Schema
	if err := o.eval(b, &sc, nil); err != nil {
		return nil, "err", err.Error()
	}
	return &sc, "ok", ""
}

// typeObs computes the type-level observation of one type: what FormatType,
// ParseType, Convert, the HCL printer and the HCL evaluator do with it.
type typeObs struct {
	fmtSt, fmtS       string
	parseSt           string
	parsed            schema.Type
	fmt2St, fmt2S     string
	convSt            string
	conv              *schemahcl.Type
	hclSt, hclExpr    string
	unsignedAttr      string // "-" | "true" | "false": column-level unsigned attribute printed
	backSt            string
	back              schema.Type
	back2Bytes        bool // re-marshal of the evaluated schema gives the same bytes
	diffFwd, diffBack int
	diffSt            string
	doc               []byte
}

func (o *dops) observe(t schema.Type) *typeObs {
	r := &typeObs{parseSt: "-", fmt2St: "-", hclSt: "-", backSt: "-", diffSt: "-", unsignedAttr: "-"}
	r.fmtS, r.fmtSt = o.fmtSafe(t)
	if r.fmtSt == "ok" {
		r.parsed, r.parseSt = o.parseSafe(r.fmtS)
		if r.parseSt == "ok" {
			r.fmt2S, r.fmt2St = o.fmtSafe(r.parsed)
		}
	}
	r.conv, r.convSt = o.convertSafe(t)
	sc := oneColumn(o, t)
	doc, st := o.marshalSafe(sc)
	r.hclSt = st
	if st != "ok" {
		return r
	}
	r.doc = doc
	if m := reTypeLine.FindSubmatch(doc); m != nil {
		r.hclExpr = string(m[1])
	}
	if m := regexp.MustCompile(`(?m)^\s*unsigned\s*=\s*(.*)$`).FindSubmatch(doc); m != nil {
		r.unsignedAttr = strings.TrimSpace(string(m[1]))
	}
	sc2, st, _ := o.evalSafe(doc)
	r.backSt = st
	if st != "ok" {
		return r
	}
	if tb, ok := sc2.Table("t"); ok {
		if c, ok := tb.Column("c"); ok && c.Type != nil {
			r.back = c.Type.Type
		}
	}
	doc2, st2 := o.marshalSafe(sc2)
	r.back2Bytes = st2 == "ok" && bytes.Equal(doc, doc2)
	func() {
		defer func() {
			if rec := recover(); rec != nil {
				r.diffSt = "panic"
			}
		}()
		c1, err1 := o.diff.SchemaDiff(sc, sc2)
		c2, err2 := o.diff.SchemaDiff(sc2, sc)
		if err1 != nil || err2 != nil {
			r.diffSt = "err"
			return
		}
		r.diffSt = "ok"
		r.diffFwd, r.diffBack = len(c1), len(c2)
	}()
	return r
}

func (r *typeObs) lines() []string {
	f := "fmt=" + r.fmtSt
	if r.fmtSt == "ok" {
		f += ":" + hx(r.fmtS)
	}
	p := "parse=" + r.parseSt
	if r.parseSt == "ok" {
		p += ":" + showType(r.parsed)
	}
	f2 := "fmt2=" + r.fmt2St
	if r.fmt2St == "ok" {
		f2 += ":" + hx(r.fmt2S)
	}
	c := "conv=" + r.convSt
	if r.convSt == "ok" {
		c += ":" + showHCLType(r.conv)
	}
	h := "hcl=" + r.hclSt
	if r.hclSt == "ok" {
		h += ":" + hx(r.hclExpr) + ":" + r.unsignedAttr
	}
	b := "back=" + r.backSt
	if r.backSt == "ok" {
		b += ":" + showType(r.back)
	}
	return []string{f + " " + p + " " + f2, c + " " + h + " " + b}
}
