package main

// Schema-level property oracle of C15 for the three dialects: random whole
// schemas (tables, columns over the dialect's type catalogue, nullability,
// defaults, primary keys, indexes, foreign keys, checks, comments and the
// dialect attributes) -> MarshalHCL -> EvalHCLBytes -> SchemaDiff empty in both
// directions -> MarshalHCL of the result gives the same bytes.

import (
	"bytes"
	"fmt"
	"reflect"
	"strings"

	"ariga.io/atlas/sql/mysql"
	"ariga.io/atlas/sql/postgres"
	"ariga.io/atlas/sql/schema"
	"ariga.io/atlas/sql/sqlite"

	"verifharness/internal/out"
	"verifharness/internal/rng"
)

// typePool returns the types a random column may take: the declared-parameter
// grid and ParseType results, minus the types on which the type-level oracle
// already fails (those are reported by the fmt stage, not again here).
func typePool(o *dops) []schema.Type {
	var pool []schema.Type
	for _, g := range gridTypes(o, "quick") {
		if g.origin != "spec" && g.origin != "raw" {
			continue
		}
		r := o.observe(g.t)
		if r.fmtSt != "ok" || r.parseSt != "ok" || r.fmt2S != r.fmtS || r.backSt != "ok" || r.diffSt != "ok" || r.diffFwd+r.diffBack != 0 || !r.back2Bytes {
			continue
		}
		pool = append(pool, g.t)
	}
	return pool
}

type feat struct{ ks []string }

func (f *feat) add(k string) { f.ks = append(f.ks, k) }

func defaultFor(r *rng.R, t schema.Type) schema.Expr {
	switch t.(type) {
	case *schema.IntegerType, *schema.DecimalType, *schema.FloatType:
		return &schema.Literal{V: rng.Pick(r, []string{"0", "1", "42", "-7"})}
	case *schema.BoolType:
		return &schema.Literal{V: rng.Pick(r, []string{"true", "false"})}
	case *schema.StringType:
		return &schema.Literal{V: rng.Pick(r, []string{"'abc'", "''", "'it''s'", "'a b'", `'q"q'`})}
	case *schema.TimeType:
		return &schema.RawExpr{X: "CURRENT_TIMESTAMP"}
	}
	return nil
}

var commentPool = []string{"plain", "with 'quote'", `with "dq"`, "multi\nline", "hash # and // slash", "unicode é", "${interp}", "%{tmpl}", "back\\slash",
	// three and more lines, first line = last line (the printer writes a string as a heredoc only when it IS one)
	"\nprice > 0\n", "+------+\n| note |\n+------+", "TODO\nmiddle\nTODO", "a\nb\nc\nd", "-\n-\n-"}

func genSchema(r *rng.R, o *dops, pool []schema.Type, f *feat) *schema.Schema {
	s := schema.New(schemaName(o))
	if o.name == "mysql" && r.Chance(1, 3) {
		s.SetCharset("utf8mb4").SetCollation("utf8mb4_0900_ai_ci")
		f.add("schema-charset")
	}
	nt := 1 + r.Intn(4)
	for ti := 0; ti < nt; ti++ {
		t := schema.NewTable(fmt.Sprintf("t%d", ti)).SetSchema(s)
		nc := 1 + r.Intn(5)
		for ci := 0; ci < nc; ci++ {
			typ := rng.Pick(r, pool)
			c := schema.NewColumn(fmt.Sprintf("c%d", ci)).SetType(cloneType(typ))
			c.Type.Null = r.Chance(1, 3)
			if r.Chance(1, 3) {
				if d := defaultFor(r, typ); d != nil {
					c.SetDefault(d)
					f.add("default")
				}
			}
			if r.Chance(1, 4) {
				c.SetComment(rng.Pick(r, commentPool))
				f.add("col-comment")
			}
			columnAttrs(r, o, c, typ, f)
			t.AddColumns(c)
		}
		if r.Chance(2, 3) {
			pk := schema.NewPrimaryKey(t.Columns[0])
			if len(t.Columns) > 1 && r.Chance(1, 3) {
				pk = schema.NewPrimaryKey(t.Columns[0], t.Columns[1])
			}
			t.Columns[0].Type.Null = false
			// MySQL: whatever is valid on a part of a secondary index is valid on a part of the primary key
			// (`primary_key { on { column, desc, prefix } }`, index type). SQLite/PG: the HCL primary_key block
			// has `columns` only and neither inspector reports DESC on a key part, so such schemas are not
			// reachable by inspection and stay outside the generated domain.
			if r.Chance(1, 2) {
				for _, p := range pk.Parts {
					if o.name == "mysql" {
						p.Desc = r.Chance(1, 3)
						if p.Desc {
							f.add("pk-desc")
						}
					}
					if o.name == "mysql" && isStr(p.C.Type.Type) && r.Chance(2, 3) {
						p.AddAttrs(&mysql.SubPart{Len: 1 + r.Intn(9)})
						f.add("pk-prefix")
					}
				}
				if o.name == "mysql" && r.Chance(1, 4) {
					pk.AddAttrs(&mysql.IndexType{T: rng.Pick(r, []string{"BTREE", "HASH"})})
					f.add("pk-type")
				}
			}
			t.SetPrimaryKey(pk)
			f.add("pk")
		}
		ni := r.Intn(3)
		for ii := 0; ii < ni; ii++ {
			idx := schema.NewIndex(fmt.Sprintf("idx_%d_%d", ti, ii))
			idx.Unique = r.Chance(1, 3)
			np := 1 + r.Intn(2)
			for pi := 0; pi < np && pi < len(t.Columns); pi++ {
				col := t.Columns[(ii+pi)%len(t.Columns)]
				var p *schema.IndexPart
				if r.Chance(1, 6) {
					p = schema.NewExprPart(&schema.RawExpr{X: "(" + col.Name + " + 1)"})
					f.add("idx-expr")
				} else {
					p = schema.NewColumnPart(col)
				}
				p.Desc = r.Chance(1, 4)
				if p.Desc {
					f.add("idx-desc")
				}
				indexPartAttrs(r, o, p, col, f)
				idx.AddParts(p)
			}
			indexAttrs(r, o, idx, t, f)
			t.AddIndexes(idx)
			f.add("index")
		}
		if r.Chance(1, 3) {
			ck := schema.NewCheck().SetName(fmt.Sprintf("ck_%d", ti)).SetExpr(rng.Pick(r, []string{"(c0 > 0)", "c0 <> 'x'", `(c0 != "y")`, "c0 IS NOT NULL"}))
			if o.name == "mysql" && r.Chance(1, 2) {
				// NOT ENFORCED as well (checkSpec writes `enforced = true` for any Enforced attribute)
				ck.AddAttrs(&mysql.Enforced{V: r.Chance(1, 2)})
				f.add("check-enforced")
			}
			t.AddChecks(ck)
			f.add("check")
		}
		if r.Chance(1, 4) {
			t.SetComment(rng.Pick(r, commentPool))
			f.add("table-comment")
		}
		tableAttrs(r, o, t, f)
		s.AddTables(t)
	}
	// foreign keys to earlier tables' first column (same type)
	for ti := 1; ti < len(s.Tables); ti++ {
		if !r.Chance(1, 2) {
			continue
		}
		ref := s.Tables[r.Intn(ti)]
		t := s.Tables[ti]
		col := schema.NewColumn("fk_" + ref.Name).SetType(cloneType(ref.Columns[0].Type.Type))
		col.Type.Null = true
		t.AddColumns(col)
		fk := schema.NewForeignKey(fmt.Sprintf("fk_%d", ti)).SetTable(t).AddColumns(col).SetRefTable(ref).AddRefColumns(ref.Columns[0])
		opts := []schema.ReferenceOption{schema.NoAction, schema.Restrict, schema.Cascade, schema.SetNull, schema.SetDefault}
		if r.Chance(1, 2) {
			fk.SetOnDelete(rng.Pick(r, opts))
		}
		if r.Chance(1, 2) {
			fk.SetOnUpdate(rng.Pick(r, opts))
		}
		t.AddForeignKeys(fk)
		f.add("fk")
	}
	return s
}

func cloneType(t schema.Type) schema.Type {
	return clone(t).Interface().(schema.Type)
}

func isInt(t schema.Type) bool  { _, ok := t.(*schema.IntegerType); return ok }
func isStr(t schema.Type) bool  { _, ok := t.(*schema.StringType); return ok }
func isTime(t schema.Type) bool { _, ok := t.(*schema.TimeType); return ok }

func columnAttrs(r *rng.R, o *dops, c *schema.Column, typ schema.Type, f *feat) {
	switch o.name {
	case "sqlite":
		if isInt(typ) && r.Chance(1, 2) {
			c.AddAttrs(&sqlite.AutoIncrement{})
			f.add("auto_increment")
		}
		if r.Chance(1, 8) {
			c.SetGeneratedExpr(&schema.GeneratedExpr{Expr: "1 + 1", Type: rng.Pick(r, []string{"STORED", "VIRTUAL", ""})})
			f.add("generated")
		}
	case "mysql":
		if isInt(typ) && r.Chance(1, 2) {
			c.AddAttrs(&mysql.AutoIncrement{})
			f.add("auto_increment")
		}
		if isStr(typ) && r.Chance(1, 3) {
			c.SetCharset("latin1").SetCollation("latin1_swedish_ci")
			f.add("col-charset")
		}
		if isTime(typ) && r.Chance(1, 3) {
			c.AddAttrs(&mysql.OnUpdate{A: "CURRENT_TIMESTAMP"})
			f.add("on_update")
		}
		if r.Chance(1, 8) {
			c.SetGeneratedExpr(&schema.GeneratedExpr{Expr: "1 + 1", Type: rng.Pick(r, []string{"STORED", "VIRTUAL", ""})})
			f.add("generated")
		}
	case "postgres":
		if isInt(typ) && r.Chance(1, 2) {
			c.AddAttrs(&postgres.Identity{Generation: rng.Pick(r, []string{"ALWAYS", "BY DEFAULT"}), Sequence: &postgres.Sequence{Start: int64(1 + r.Intn(3)), Increment: int64(1 + r.Intn(2))}})
			f.add("identity")
		}
		if r.Chance(1, 8) {
			c.SetGeneratedExpr(&schema.GeneratedExpr{Expr: "1 + 1", Type: "STORED"})
			f.add("generated")
		}
	}
}

func indexPartAttrs(r *rng.R, o *dops, p *schema.IndexPart, col *schema.Column, f *feat) {
	switch o.name {
	case "mysql":
		if p.C != nil && isStr(col.Type.Type) && r.Chance(2, 3) {
			p.AddAttrs(&mysql.SubPart{Len: 1 + r.Intn(9)})
			f.add("idx-prefix")
		}
	case "postgres":
		if r.Chance(1, 6) {
			nf := r.Bool() // exactly one of NULLS FIRST / NULLS LAST holds (pg_index.indoption)
			p.AddAttrs(&postgres.IndexColumnProperty{NullsFirst: nf, NullsLast: !nf})
			f.add("idx-nulls")
		}
	}
}

func indexAttrs(r *rng.R, o *dops, idx *schema.Index, t *schema.Table, f *feat) {
	switch o.name {
	case "sqlite":
		if r.Chance(1, 4) {
			idx.AddAttrs(&sqlite.IndexPredicate{P: rng.Pick(r, []string{"c0 > 0", "c0 <> 'x'", `c0 != "y"`})})
			f.add("idx-where")
		}
	case "mysql":
		if r.Chance(1, 4) {
			idx.AddAttrs(&mysql.IndexType{T: rng.Pick(r, []string{"BTREE", "HASH", "FULLTEXT"})})
			f.add("idx-type")
		}
	case "postgres":
		if r.Chance(1, 4) {
			idx.AddAttrs(&postgres.IndexType{T: rng.Pick(r, []string{"BTREE", "HASH", "GIN", "BRIN"})})
			f.add("idx-type")
		}
		if r.Chance(1, 4) {
			idx.AddAttrs(&postgres.IndexPredicate{P: rng.Pick(r, []string{"(c0 > 0)", "c0 <> 'x'", "((c0))", "((c0 > 0))", "((c0 > 0) AND (c0 < 10))"})})
			f.add("idx-where")
		}
		if r.Chance(1, 5) && len(t.Columns) > 1 {
			idx.AddAttrs(&postgres.IndexInclude{Columns: []*schema.Column{t.Columns[len(t.Columns)-1]}})
			f.add("idx-include")
		}
		if idx.Unique && r.Chance(1, 3) {
			idx.AddAttrs(&postgres.IndexNullsDistinct{V: r.Bool()})
			f.add("idx-nulls-distinct")
		}
	}
}

func tableAttrs(r *rng.R, o *dops, t *schema.Table, f *feat) {
	switch o.name {
	case "sqlite":
		if r.Chance(1, 5) {
			t.AddAttrs(&sqlite.WithoutRowID{})
			f.add("without_rowid")
		}
		if r.Chance(1, 5) {
			t.AddAttrs(&sqlite.Strict{})
			f.add("strict")
		}
	case "mysql":
		if r.Chance(1, 4) {
			t.SetCharset("utf8mb4").SetCollation("utf8mb4_bin")
			f.add("table-charset")
		}
		if r.Chance(1, 5) {
			t.AddAttrs(&mysql.Engine{V: rng.Pick(r, []string{"InnoDB", "MyISAM"})})
			f.add("engine")
		}
		if r.Chance(1, 15) {
			t.AddAttrs(&mysql.AutoIncrement{V: int64(2 + r.Intn(100))})
			f.add("table-auto_increment")
		}
	}
}

// describe prints a compact, replayable description of a schema.
func describe(s *schema.Schema) string {
	var b strings.Builder
	for _, t := range s.Tables {
		fmt.Fprintf(&b, "%s(", t.Name)
		for i, c := range t.Columns {
			if i > 0 {
				b.WriteString(",")
			}
			fmt.Fprintf(&b, "%s:%s", c.Name, showType(c.Type.Type))
			for _, a := range c.Attrs {
				fmt.Fprintf(&b, "+%s", reflect.TypeOf(a).Elem().Name())
			}
		}
		b.WriteString(")")
		for _, a := range t.Attrs {
			fmt.Fprintf(&b, "+%s", reflect.TypeOf(a).Elem().Name())
		}
		for _, idx := range t.Indexes {
			fmt.Fprintf(&b, " idx:%s", idx.Name)
			for _, a := range idx.Attrs {
				fmt.Fprintf(&b, "+%s", reflect.TypeOf(a).Elem().Name())
			}
		}
		b.WriteString("; ")
	}
	return b.String()
}

// enforcedOf prints the mysql.Enforced attribute of a check: nil | true | false.
func enforcedOf(c *schema.Check) string {
	if c == nil {
		return "nil"
	}
	for _, a := range c.Attrs {
		if e, ok := a.(*mysql.Enforced); ok {
			return fmt.Sprint(e.V)
		}
	}
	return "nil"
}

func changeKinds(cs []schema.Change) string {
	var ks []string
	for _, c := range cs {
		k := reflect.TypeOf(c).Elem().Name()
		if m, ok := c.(*schema.ModifyTable); ok {
			var sub []string
			for _, x := range m.Changes {
				sk := reflect.TypeOf(x).Elem().Name()
				switch y := x.(type) {
				case *schema.ModifyColumn:
					sk += fmt.Sprintf("[%s:%s]", y.To.Name, y.Change)
				case *schema.ModifyIndex:
					sk += fmt.Sprintf("[%s:%s]", y.To.Name, y.Change)
				case *schema.ModifyAttr:
					sk += fmt.Sprintf("[%T]", y.To)
				case *schema.AddAttr:
					sk += fmt.Sprintf("[%T]", y.A)
				case *schema.DropAttr:
					sk += fmt.Sprintf("[%T]", y.A)
				case *schema.ModifyCheck:
					sk += "[enforced:" + enforcedOf(y.From) + "->" + enforcedOf(y.To) + "]"
				}
				sub = append(sub, sk)
			}
			k += "{" + strings.Join(sub, ",") + "}"
		}
		ks = append(ks, k)
	}
	return strings.Join(ks, ",")
}

func runSchema(w *out.W, tier, dial string) {
	w.Rule = "a schema is non-trivial when it carries at least one of: default, comment, pk, index, fk, check, dialect attribute (distinct feature sets are counted)"
	n := 300
	if tier == "thorough" {
		n = 5000
	}
	for _, o := range pickOps(dial) {
		pool := typePool(o)
		r := rng.FromEnv(uint64(len(o.name)) * 7919)
		for i := 0; i < n; i++ {
			id := fmt.Sprintf("S%s-%05d", o.name[:1], i)
			f := &feat{}
			s := genSchema(r, o, pool, f)
			desc := fmt.Sprintf("dialect=%s features=%s schema=%s", o.name, strings.Join(uniq(f.ks), "+"), describe(s))
			w.ImplOnly(id, desc)
			w.Count(o.name + "/schemas")
			for _, k := range uniq(f.ks) {
				w.Count("feature/" + k)
			}
			if len(f.ks) > 0 {
				w.NonTrivial(o.name + strings.Join(uniq(f.ks), "+") + fmt.Sprint(len(s.Tables)))
			}
			schemaOracle(w, o, id, s, desc)
			if o.name != "sqlite" && i%3 == 0 {
				realmCase(w, o, r, pool, "R"+id[1:])
			}
		}
	}
}

// realmCase: a realm of two schemas that hold tables of the same names, with foreign keys that cross
// from one schema to the same-named (and other) tables of the other one. MarshalHCL(realm) -> EvalHCLBytes
// into a realm -> RealmDiff empty in both directions, every foreign key still points at the table of the
// schema it pointed at (the differ compares reference tables by name only), re-marshal gives the same bytes.
func realmCase(w *out.W, o *dops, r *rng.R, pool []schema.Type, id string) {
	var plain []schema.Type
	for _, t := range pool {
		if _, ok := t.(*schema.EnumType); !ok {
			plain = append(plain, t)
		}
	}
	f := &feat{}
	s1 := genSchema(r, o, plain, f)
	s2 := genSchema(r, o, plain, f)
	s2.Name = "other_" + s1.Name
	// (the table attribute AUTO_INCREMENT=n is not marshalled: known finding of the schema stage, not repeated here)
	for _, sc := range []*schema.Schema{s1, s2} {
		for _, t := range sc.Tables {
			var keep []schema.Attr
			for _, a := range t.Attrs {
				if _, ok := a.(*mysql.AutoIncrement); !ok {
					keep = append(keep, a)
				}
			}
			t.Attrs = keep
		}
	}
	realm := schema.NewRealm(s1, s2)
	s1.Realm, s2.Realm = realm, realm
	type ref struct{ schema, table, symbol, toSchema, toTable string }
	var refs []ref
	for _, pair := range [][2]*schema.Schema{{s1, s2}, {s2, s1}} {
		from, to := pair[0], pair[1]
		for ti, t := range from.Tables {
			if !r.Chance(2, 3) {
				continue
			}
			// the same-named table of the other schema when there is one, else any of its tables
			rt, ok := to.Table(t.Name)
			if !ok || r.Chance(1, 4) {
				rt = to.Tables[r.Intn(len(to.Tables))]
			}
			col := schema.NewColumn("x_" + rt.Name).SetType(cloneType(rt.Columns[0].Type.Type))
			col.Type.Null = true
			t.AddColumns(col)
			fk := schema.NewForeignKey(fmt.Sprintf("xfk_%s_%d", from.Name, ti)).SetTable(t).AddColumns(col).SetRefTable(rt).AddRefColumns(rt.Columns[0])
			t.AddForeignKeys(fk)
			refs = append(refs, ref{from.Name, t.Name, fk.Symbol, to.Name, rt.Name})
		}
	}
	desc := fmt.Sprintf("dialect=%s realm of schemas %s{%s} and %s{%s} cross-schema fks=%v", o.name, s1.Name, describe(s1), s2.Name, describe(s2), refs)
	w.ImplOnly(id, desc)
	w.Count(o.name + "/realms")
	if len(refs) > 0 {
		w.Count("feature/cross-schema-fk")
		w.NonTrivial(fmt.Sprintf("%s realm %d", o.name, len(refs)))
	}
	var doc []byte
	var back schema.Realm
	st := "ok"
	msg := ""
	func() {
		defer func() {
			if rec := recover(); rec != nil {
				st, msg = "panic", fmt.Sprint(rec)
			}
		}()
		var err error
		if doc, err = o.marshal(realm); err != nil {
			st, msg = "marshal-err", err.Error()
			return
		}
		if err = o.eval(doc, &back, nil); err != nil {
			st, msg = "eval-err", err.Error()
		}
	}()
	if st != "ok" {
		w.Violation(id, "realm-"+st, fmt.Sprintf("%s error=%q", desc, firstLine(msg)))
		return
	}
	c1, err1 := o.diff.RealmDiff(realm, &back)
	c2, err2 := o.diff.RealmDiff(&back, realm)
	if err1 != nil || err2 != nil {
		w.Violation(id, "realm-diff-err", fmt.Sprintf("%s err=%v/%v", desc, err1, err2))
		return
	}
	if len(c1) != 0 || len(c2) != 0 {
		w.Violation(id, "realm-diff-nonempty", fmt.Sprintf("changes=%s | %s %s", changeKinds(c1), changeKinds(c2), desc))
		return
	}
	for _, x := range refs {
		bs, ok := back.Schema(x.schema)
		if !ok {
			w.Violation(id, "realm-schema-lost", x.schema+" "+desc)
			return
		}
		bt, ok := bs.Table(x.table)
		if !ok {
			w.Violation(id, "realm-table-lost", x.schema+"."+x.table+" "+desc)
			return
		}
		bf, ok := bt.ForeignKey(x.symbol)
		if !ok || bf.RefTable == nil || bf.RefTable.Schema == nil {
			w.Violation(id, "realm-fk-lost", fmt.Sprintf("%s.%s.%s %s", x.schema, x.table, x.symbol, desc))
			return
		}
		if bf.RefTable.Name != x.toTable || bf.RefTable.Schema.Name != x.toSchema {
			w.Violation(id, "realm-fk-repointed", fmt.Sprintf("foreign key %s.%s.%s referenced %s.%s and references %s.%s after the round trip; %s", x.schema, x.table, x.symbol, x.toSchema, x.toTable, bf.RefTable.Schema.Name, bf.RefTable.Name, desc))
			return
		}
	}
	doc2, err := o.marshal(&back)
	if err != nil || !bytes.Equal(doc, doc2) {
		w.Violation(id, "realm-remarshal-differs", fmt.Sprintf("firstdiff=%q %s", firstDiff(doc, doc2), desc))
	}
}

func uniq(xs []string) []string {
	seen := map[string]bool{}
	var r []string
	for _, x := range xs {
		if !seen[x] {
			seen[x] = true
			r = append(r, x)
		}
	}
	return r
}

var lastSchema = map[string]*schema.Schema{}

func schemaOracle(w *out.W, o *dops, id string, s *schema.Schema, desc string) {
	doc, st := o.marshalSafe(s)
	if st != "ok" {
		w.Violation(id, "schema-marshal-"+st, desc)
		return
	}
	// the returned document belongs to the caller: later Marshal calls (of this or of any other schema) must not change it
	keep := append([]byte(nil), doc...)
	defer func() {
		if lastSchema[o.name] != nil {
			o.marshalSafe(lastSchema[o.name])
		}
		lastSchema[o.name] = s
		if !bytes.Equal(keep, doc) {
			w.Violation(id, "marshal-output-aliased", fmt.Sprintf("the bytes returned by MarshalHCL changed after later MarshalHCL calls: firstdiff=%q %s", firstDiff(keep, doc), desc))
		}
	}()
	back, st, msg := o.evalSafe(doc)
	if st != "ok" {
		w.Violation(id, "schema-eval-"+st, fmt.Sprintf("%s error=%q", desc, firstLine(msg)))
		return
	}
	var c1, c2 []schema.Change
	var err1, err2 error
	func() {
		defer func() {
			if rec := recover(); rec != nil {
				err1 = fmt.Errorf("panic: %v", rec)
			}
		}()
		c1, err1 = o.diff.SchemaDiff(s, back)
		c2, err2 = o.diff.SchemaDiff(back, s)
	}()
	if err1 != nil || err2 != nil {
		w.Violation(id, "schema-diff-err", fmt.Sprintf("%s err=%v/%v", desc, err1, err2))
		return
	}
	if len(c1) != 0 || len(c2) != 0 {
		w.Violation(id, "schema-diff-nonempty", fmt.Sprintf("changes=%s | %s %s", changeKinds(c1), changeKinds(c2), desc))
		return
	}
	doc2, st := o.marshalSafe(back)
	if st != "ok" || !bytes.Equal(doc, doc2) {
		w.Violation(id, "schema-remarshal-differs", fmt.Sprintf("firstdiff=%q %s", firstDiff(doc, doc2), desc))
	}
}

func firstLine(s string) string {
	if i := strings.IndexByte(s, '\n'); i >= 0 {
		return s[:i]
	}
	return s
}

func firstDiff(a, b []byte) string {
	la, lb := strings.Split(string(a), "\n"), strings.Split(string(b), "\n")
	for i := 0; i < len(la) && i < len(lb); i++ {
		if la[i] != lb[i] {
			return strings.TrimSpace(la[i]) + " <> " + strings.TrimSpace(lb[i])
		}
	}
	return fmt.Sprintf("len %d <> %d", len(la), len(lb))
}
