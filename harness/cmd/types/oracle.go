package main

import (
	"fmt"

	"verifharness/internal/out"
)

// oracleType evaluates C15 on one type of the dialect (origins "spec" and
// "raw"; "cross" types are not types of the dialect), on the Go observations only:
//   - FormatType/ParseType fixpoint: FormatType t = s  =>  ParseType s = t', FormatType t' = s
//   - one-column schema: MarshalHCL -> EvalHCLBytes succeeds, SchemaDiff empty both ways,
//     re-marshal gives the same bytes.
func oracleType(w *out.W, o *dops, id string, g gtype, r *typeObs) {
	if g.origin == "cross" || g.origin == "specx" {
		return
	}
	desc := fmt.Sprintf("dialect=%s type=%s", o.name, showType(g.t))
	if r.fmtSt == "panic" {
		w.Violation(id, "format-panic", desc)
		return
	}
	if r.fmtSt == "ok" {
		switch {
		case r.parseSt != "ok":
			w.Violation(id, "fixpoint-parse-"+r.parseSt, fmt.Sprintf("%s FormatType=%q ParseType fails", desc, r.fmtS))
		case r.fmt2St != "ok" || r.fmt2S != r.fmtS:
			w.Violation(id, "fixpoint", fmt.Sprintf("%s FormatType=%q reparsed=%s FormatType=%q", desc, r.fmtS, showType(r.parsed), r.fmt2S))
		}
	}
	if r.fmtSt != "ok" {
		return // not a valid type of the dialect (FormatType rejects it): nothing to marshal
	}
	switch {
	case r.hclSt != "ok":
		w.Violation(id, "marshal-"+r.hclSt, desc)
	case r.backSt != "ok":
		w.Violation(id, "eval-"+r.backSt, fmt.Sprintf("%s hcl=%q", desc, r.hclExpr))
	case r.diffSt != "ok":
		w.Violation(id, "diff-"+r.diffSt, fmt.Sprintf("%s hcl=%q", desc, r.hclExpr))
	case r.diffFwd != 0 || r.diffBack != 0:
		w.Violation(id, "diff-nonempty", fmt.Sprintf("%s hcl=%q back=%s changes=%d/%d", desc, r.hclExpr, showType(r.back), r.diffFwd, r.diffBack))
	case !r.back2Bytes:
		w.Violation(id, "remarshal-differs", fmt.Sprintf("%s hcl=%q back=%s", desc, r.hclExpr, showType(r.back)))
	}
}
