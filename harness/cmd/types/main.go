// Command types is the harness of property C15 (HCL round trip for every
// dialect and type): the registry translator (-mode gen), the type-level tie
// of FormatType/ParseType/Convert/hclType/Type against the Coq model
// (-mode fmt) and the schema-level property oracle (-mode schema).
package main

import (
	"flag"
	"fmt"
	"os"

	"verifharness/internal/out"
)

func main() {
	mode := flag.String("mode", "fmt", "gen|fmt|schema|explore")
	tier := flag.String("tier", "quick", "quick|thorough")
	outDir := flag.String("out", "", "output directory")
	dial := flag.String("dialect", "all", "sqlite|mysql|postgres|all")
	flag.Parse()
	if *outDir == "" && *mode != "explore" {
		fmt.Fprintln(os.Stderr, "missing -out")
		os.Exit(2)
	}
	switch *mode {
	case "gen":
		runGen(*outDir)
	case "fmt":
		w := out.New(*outDir)
		defer w.Close()
		runFmt(w, *tier, *dial)
	case "schema":
		w := out.New(*outDir)
		defer w.Close()
		runSchema(w, *tier, *dial)
	case "explore":
		explore(flag.Args())
	default:
		fmt.Fprintln(os.Stderr, "unknown mode")
		os.Exit(2)
	}
}
