package main

import (
	"fmt"

	"verifharness/internal/out"
)

// runFmt is the type-level stage: for every type of the grid, what FormatType,
// ParseType, Convert, the HCL printer and the evaluator do (compared with the
// model line by line) and the type-level oracle on the Go observations.
// modelled lists the dialects whose FormatType/ParseType/registry have a Coq model.
var modelled = map[string]bool{"sqlite": true, "mysql": true}

// PostgreSQL: FormatType and ParseType have a Coq model (Hcl/TypesPg.v); the registry path has not.
var modelledFmtOnly = map[string]bool{"postgres": true}

func runFmt(w *out.W, tier, dial string) {
	w.Rule = "a case is non-trivial when the type carries a non-zero parameter, an upper-case / unknown / parameterised name, or reaches an error or panic outcome"
	w.Exhaust = true
	n := 0
	for _, o := range pickOps(dial) {
		for _, g := range gridTypes(o, tier) {
			n++
			id := fmt.Sprintf("%s-%05d", o.name[:1], n)
			r := o.observe(g.t)
			if modelled[o.name] {
				w.Case(id, o.name+" "+showType(g.t), r.lines())
			} else if modelledFmtOnly[o.name] {
				// PostgreSQL: FormatType, ParseType of the result, FormatType again are compared with the
				// model; the registry path (second line) is covered by the property oracle below.
				w.Case(id, o.name+" "+showType(g.t), r.lines()[:1])
			}
			w.Count(o.name + "/" + g.origin)
			w.Count("fmt/" + r.fmtSt)
			w.Count("parse/" + r.parseSt)
			w.Count("back/" + r.backSt)
			if r.fmtSt != "ok" || r.parseSt != "ok" || r.backSt != "ok" || g.origin == "cross" || g.origin == "specx" || showType(g.t) != showType(r.back) {
				w.NonTrivial(o.name + showType(g.t))
			}
			oracleType(w, o, id, g, r)
		}
	}
	if dial == "all" || dial == "postgres" {
		runRawPg(w, tier)
	}
}

